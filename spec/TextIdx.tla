------------------------------ MODULE TextIdx ------------------------------
(***************************************************************************)
(* C09 -- Text and hybrid ranking follow the BM25 and fusion formulas on   *)
(* current data.                                                           *)
(*                                                                         *)
(* One vector index with one text field ("content").  A document is a bag  *)
(* over the abstract terms 1..NT (term frequency 0..2), coded in base 3.   *)
(*                                                                         *)
(* Two descriptions of the same thing live side by side:                   *)
(*   cur  -- the abstract corpus: external id -> current value of the      *)
(*           field (the map-of-records truth);                             *)
(*   m    -- the implementation-shaped text index: postings               *)
(*           (term -> {<<internal id, tf>>}), N (TotalDocs), dl            *)
(*           (DocLengths), total (TotalDocLength), the metadata map and    *)
(*           the id maps, maintained INCREMENTALLY by transcriptions of    *)
(*           pkg/core/core.go AddMetadata / removeOldIndexEntries /        *)
(*           DeleteMetadata, and REBUILT by transcriptions of              *)
(*           LoadFromSnapshot (AddMetadataUnlocked per node), of the log   *)
(*           replay of pkg/engine/recovery.go (aggregate, then apply) and  *)
(*           of DB.Compress.                                               *)
(* Inv_StatsFresh: after ANY history the incrementally maintained          *)
(* statistics are the from-scratch statistics of the current corpus.       *)
(*                                                                         *)
(* The real-valued BM25 formula is NOT evaluated here (TLC has no reals):  *)
(* the specification decides the integers the formula has to be evaluated  *)
(* on (tf, df, N, len, total), the candidate set of every query and the    *)
(* order constraints of the fusion (alpha = 1: vector order, alpha = 0:    *)
(* text order, text-only query: text order).  Vector distances on the      *)
(* integer lattice are exact integers and are computed here.               *)
(***************************************************************************)
EXTENDS Integers, Sequences, FiniteSets, TLC, Json, SequencesExt

CONSTANTS
  DocSeq,     \* the external document ids as a sequence (fixes iteration orders and the JSON layout)
  NT,         \* number of abstract terms; the terms are 1..NT
  Bags,       \* menu of text values: codes c = SUM tf_t * 3^(t-1), tf_t \in 0..2  (0 = text with no indexable token)
  AddVals,    \* extra non-text values a document may be added with: subset of {NONE, NUM}
  MaxOps,     \* bound on the length of a history
  MaxCtr,     \* bound on the internal id counter      (state-cover mode; large otherwise)
  MaxLog,     \* bound on the length of the journal    (state-cover mode; large otherwise)
  Maint,      \* enabled maintenance operations: subset of {"Snapshot", "Reopen", "Rewrite", "Compress"}
  Pos,        \* lattice position of every document: [i \in 1..Len(DocSeq) -> tuple of integers]
  QVecs       \* sequence of (non-zero) query vectors on the lattice

Docs  == {DocSeq[i] : i \in 1..Len(DocSeq)}
ND    == Len(DocSeq)
Terms == 1..NT

\* values of the field
NONE   == -1      \* live document whose metadata has no "content" key
NUM    == -2      \* "content" holds a number: not text
ABSENT == -3      \* no such document
IsText(v) == v >= 0
Vals == Bags \cup {NONE, NUM}

ASSUME /\ \A c \in Bags : c \in 0..(3^NT - 1)
       /\ AddVals \subseteq {NONE, NUM}
       /\ \A i, j \in 1..ND : i # j => DocSeq[i] # DocSeq[j]

Tf(c, t)  == (c \div (3^(t-1))) % 3
RECURSIVE SumTf(_, _)
SumTf(c, t) == IF t = 0 THEN 0 ELSE Tf(c, t) + SumTf(c, t - 1)
BLen(c)   == SumTf(c, NT)                                 \* length of the analysed field = number of tokens
BTerms(c) == {t \in Terms : Tf(c, t) > 0}

\* ---------------------------------------------------------------- helpers on finite functions
EmptyF      == [x \in {} |-> 0]
Put(f, k, v) == [x \in DOMAIN f \cup {k} |-> IF x = k THEN v ELSE f[x]]
Drop(f, k)  == [x \in DOMAIN f \ {k} |-> f[x]]
Max0(x)     == IF x < 0 THEN 0 ELSE x
Min2(a, b)  == IF a < b THEN a ELSE b
SeqOfSet(S) == SetToSortSeq(S, LAMBDA a, b : a < b)       \* ascending order of a set of integers
DocsIn(S)   == SelectSeq(DocSeq, LAMBDA d : d \in S)      \* the members of S \subseteq Docs in DocSeq order
Idx(d)      == CHOOSE i \in 1..ND : DocSeq[i] = d

VARIABLES
  cur,         \* abstract corpus: [Docs -> Vals \cup {ABSENT}]
  m,           \* implementation-shaped index state (record, see EmptyIx)
  snap,        \* <<>> or <<s>>: the snapshot on disk, s = [e2i, ctr, meta]
  log,         \* the journal since the last snapshot / rewrite: sequence of [op, d, v]
  compressed,  \* VCompress already changed the precision (a second one is refused)
  hist         \* the history (operations performed so far)
vars == <<cur, m, snap, log, compressed, hist>>

(***************************************************************************)
(* The implementation-shaped index                                         *)
(***************************************************************************)
EmptyIx == [ e2i   |-> [d \in Docs |-> 0],     \* externalToInternalID (0 = unmapped)
             ctr   |-> 0,                      \* nodeCounter
             meta  |-> EmptyF,                 \* metadataMap: internal id -> value of "content" (NONE: map without the key)
             post  |-> [t \in Terms |-> {}],   \* textIndex[index]["content"]: term -> posting entries <<DocID, TermFrequency>>
             N     |-> 0,                      \* TextIndexStats.TotalDocs
             dl    |-> EmptyF,                 \* TextIndexStats.DocLengths
             total |-> 0 ]                     \* TextIndexStats.TotalDocLength  (AvgFieldLength = total / N)

\* removeOldIndexEntries(index, id, "content", old, analyzer), case string
RemoveOld(ix, id, old) ==
  IF ~IsText(old) THEN ix       \* nil: return; number: B-tree only
  ELSE LET p == [t \in Terms |-> IF Tf(old, t) > 0 THEN {e \in ix.post[t] : e[1] # id} ELSE ix.post[t]]
       IN IF id \in DOMAIN ix.dl
          THEN [ix EXCEPT !.post = p, !.total = @ - ix.dl[id], !.dl = Drop(@, id), !.N = Max0(@ - 1)]
          ELSE [ix EXCEPT !.post = p]

\* the "FULL-TEXT INDEXING" block of AddMetadata / AddMetadataUnlocked
IndexText(ix, id, v) ==
  LET had    == id \in DOMAIN ix.dl
      oldLen == IF had THEN ix.dl[id] ELSE 0
      p == [t \in Terms |-> IF Tf(v, t) > 0 /\ ~(\E e \in ix.post[t] : e[1] = id)
                            THEN ix.post[t] \cup {<<id, Tf(v, t)>>} ELSE ix.post[t]]
  IN [ix EXCEPT !.N = IF had THEN @ ELSE @ + 1, !.dl = Put(@, id, BLen(v)),
                !.total = @ + BLen(v) - oldLen, !.post = p]

\* AddMetadata(index, id, metadata) restricted to the key "content"; v = NONE: the metadata has no such key
\* (the other keys of the map are not text and never reach the text index)
AddMeta(ix, id, v) ==
  LET old == IF id \in DOMAIN ix.meta THEN ix.meta[id] ELSE NONE
  IN IF v = NONE THEN [ix EXCEPT !.meta = Put(@, id, old)]
     ELSE LET ix1 == [ix EXCEPT !.meta = Put(@, id, v)]
          IN IF old = v THEN ix1                                  \* isSameAnyValue: continue
             ELSE LET ix2 == RemoveOld(ix1, id, old)
                  IN IF IsText(v) THEN IndexText(ix2, id, v) ELSE ix2

\* DeleteMetadata(index, id)
DeleteMeta(ix, id) ==
  LET p   == [t \in Terms |-> {e \in ix.post[t] : e[1] # id}]
      ix1 == [ix EXCEPT !.meta = Drop(@, id), !.post = p]
  IN IF id \in DOMAIN ix.dl
     THEN [ix1 EXCEPT !.total = @ - ix.dl[id], !.dl = Drop(@, id), !.N = Max0(@ - 1)]
     ELSE ix1

\* Engine.VAdd / VAddBatch (below efConstruction nodes a batch is a loop of single adds)
IxAdd(ix, d, v) == LET id == ix.ctr + 1 IN AddMeta([ix EXCEPT !.ctr = id, !.e2i[d] = id], id, v)
\* Engine.VDelete: hnsw Delete unmaps the external id, then DeleteMetadata(internal id)
IxDel(ix, d)    == DeleteMeta([ix EXCEPT !.e2i[d] = 0], ix.e2i[d])
\* Engine.VSetMetadata: merge into the current map, AddMetadata(merged)
IxSet(ix, d, v) == AddMeta(ix, ix.e2i[d], v)

(***************************************************************************)
(* Rebuild paths                                                           *)
(***************************************************************************)
SnapOf(ix) == [e2i |-> ix.e2i, ctr |-> ix.ctr, meta |-> ix.meta]

\* core.LoadFromSnapshot: fresh secondary indexes, AddMetadataUnlocked for every node that has metadata
LoadSnap(s) ==
  FoldLeft(LAMBDA ix, id : AddMeta(ix, id, s.meta[id]),
           [EmptyIx EXCEPT !.e2i = s.e2i, !.ctr = s.ctr], SeqOfSet(DOMAIN s.meta))

\* recovery.go replayAOF, aggregation: per index a map id -> entry and (for an index that came
\* from the snapshot) the set of deleted ids
Aggregate(lg, existing) ==
  LET step(a, r) ==
        CASE r.op = "VADD"  -> [a EXCEPT !.ent = Put(@, r.d, [vec |-> TRUE, v |-> r.v])]
          [] r.op = "VMETA" -> IF r.d \in DOMAIN a.ent
                               THEN [a EXCEPT !.ent = Put(@, r.d, [vec |-> a.ent[r.d].vec, v |-> r.v])]  \* merge: content := r.v
                               ELSE [a EXCEPT !.ent = Put(@, r.d, [vec |-> FALSE, v |-> r.v])]
          [] r.op = "VDEL"  -> [a EXCEPT !.ent = Drop(@, r.d), !.del = IF existing THEN @ \cup {r.d} ELSE @]
  IN FoldLeft(step, [ent |-> EmptyF, del |-> {}], lg)

\* recovery.go replayAOF, "Apply Reconstructed State": deletions first, then the entries
\* (Go map order; the outcome does not depend on it up to the choice of internal ids: DocSeq order here)
ApplyAgg(ix0, a, existing) ==
  LET ix1 == FoldLeft(LAMBDA ix, d : IF ix.e2i[d] # 0 THEN IxDel(ix, d) ELSE ix, ix0, DocsIn(a.del))
      one(ix, d) ==
        LET en == a.ent[d]
        IN IF ~en.vec /\ existing /\ ix.e2i[d] # 0 THEN AddMeta(ix, ix.e2i[d], en.v)   \* VMETA for a restored vector
           ELSE IF ix.e2i[d] # 0 THEN ix                                              \* idx.Add refuses a duplicate
           ELSE IxAdd(ix, d, en.v)
  IN FoldLeft(one, ix1, DocsIn(DOMAIN a.ent))

Restart(sn, lg) ==
  LET existing == sn # <<>>
  IN ApplyAgg(IF existing THEN LoadSnap(sn[1]) ELSE EmptyIx, Aggregate(lg, existing), existing)

\* core.DB.Compress: collect (id, vector, metadata) of the live nodes, reset every secondary index,
\* insert into a new hnsw index (fresh internal ids), AddMetadataUnlocked per item
Rebuild(ix) ==
  LET live == {d \in Docs : ix.e2i[d] # 0}
      val(d) == IF ix.e2i[d] \in DOMAIN ix.meta THEN ix.meta[ix.e2i[d]] ELSE NONE
  IN FoldLeft(LAMBDA acc, d : IxAdd(acc, d, val(d)), EmptyIx, DocsIn(live))

\* Engine.RewriteAOF: the compacted log holds one VADD (with its metadata) per live vector and supersedes the snapshot
Compacted(ix) ==
  LET live == {d \in Docs : ix.e2i[d] # 0}
      val(d) == IF ix.e2i[d] \in DOMAIN ix.meta THEN ix.meta[ix.e2i[d]] ELSE NONE
      ds == DocsIn(live)
  IN [i \in 1..Len(ds) |-> [op |-> "VADD", d |-> ds[i], v |-> val(ds[i])]]

(***************************************************************************)
(* Actions                                                                 *)
(***************************************************************************)
Init == /\ cur = [d \in Docs |-> ABSENT]
        /\ m = EmptyIx
        /\ snap = <<>>
        /\ log = <<>>
        /\ compressed = FALSE
        /\ hist = <<>>

H(o, d, v, p) == [op |-> o, d |-> d, v |-> v, p |-> p]
\* which restart path a Reopen exercises
DiskPath == IF snap = <<>> THEN "log" ELSE IF log = <<>> THEN "snap" ELSE "snap+log"

Add(d, v) == /\ cur[d] = ABSENT
             /\ cur' = [cur EXCEPT ![d] = v]
             /\ m' = IxAdd(m, d, v)
             /\ log' = Append(log, [op |-> "VADD", d |-> d, v |-> v])
             /\ hist' = Append(hist, H("Add", d, v, ""))
             /\ UNCHANGED <<snap, compressed>>

Set(d, v) == /\ cur[d] # ABSENT
             /\ cur' = [cur EXCEPT ![d] = v]
             /\ m' = IxSet(m, d, v)
             /\ log' = Append(log, [op |-> "VMETA", d |-> d, v |-> v])
             /\ hist' = Append(hist, H("Set", d, v, ""))
             /\ UNCHANGED <<snap, compressed>>

Del(d) == /\ cur[d] # ABSENT
          /\ cur' = [cur EXCEPT ![d] = ABSENT]
          /\ m' = IxDel(m, d)
          /\ log' = Append(log, [op |-> "VDEL", d |-> d, v |-> 0])
          /\ hist' = Append(hist, H("Del", d, 0, ""))
          /\ UNCHANGED <<snap, compressed>>

Snapshot == /\ "Snapshot" \in Maint
            /\ snap' = <<SnapOf(m)>>
            /\ log' = <<>>
            /\ hist' = Append(hist, H("Snapshot", "", 0, ""))
            /\ UNCHANGED <<cur, m, compressed>>

Reopen == /\ "Reopen" \in Maint
          /\ m' = Restart(snap, log)
          /\ hist' = Append(hist, H("Reopen", "", 0, DiskPath))
          /\ UNCHANGED <<cur, snap, log, compressed>>

Rewrite == /\ "Rewrite" \in Maint
           /\ snap' = <<>>
           /\ log' = Compacted(m)
           /\ hist' = Append(hist, H("Rewrite", "", 0, ""))
           /\ UNCHANGED <<cur, m, compressed>>

\* refused (and without effect) on an empty index and on an index that is not float32 any more
Compress == /\ "Compress" \in Maint
            /\ ~compressed
            /\ \E d \in Docs : m.e2i[d] # 0
            /\ m' = Rebuild(m)
            /\ snap' = <<SnapOf(Rebuild(m))>>       \* VCompress ends with SaveSnapshot
            /\ log' = <<>>
            /\ compressed' = TRUE
            /\ hist' = Append(hist, H("Compress", "", 0, ""))
            /\ UNCHANGED cur

Next == /\ Len(hist) < MaxOps
        /\ \/ \E d \in Docs, v \in Bags \cup AddVals : Add(d, v)
           \/ \E d \in Docs, v \in Bags \cup {NUM} : Set(d, v)
           \/ \E d \in Docs : Del(d)
           \/ Snapshot \/ Reopen \/ Rewrite \/ Compress

Spec == Init /\ [][Next]_vars

(***************************************************************************)
(* From-scratch statistics of the current corpus, candidates, invariants   *)
(***************************************************************************)
LiveDocs   == {d \in Docs : cur[d] # ABSENT}
TextDocs   == {d \in Docs : IsText(cur[d])}            \* documents that count for the field
RECURSIVE SumLen(_)
SumLen(S)  == IF S = {} THEN 0 ELSE LET d == CHOOSE x \in S : TRUE IN BLen(cur[d]) + SumLen(S \ {d})
FN         == Cardinality(TextDocs)
FTotal     == SumLen(TextDocs)
FLen(d)    == BLen(cur[d])
FTf(t, d)  == IF IsText(cur[d]) THEN Tf(cur[d], t) ELSE 0
FDf(t)     == Cardinality({d \in TextDocs : Tf(cur[d], t) > 0})
Candidates(q) == {d \in TextDocs : BTerms(cur[d]) \cap q # {}}

Inv_IdMap ==
  /\ \A d \in Docs : (m.e2i[d] # 0) <=> (cur[d] # ABSENT)
  /\ \A d, e \in Docs : (d # e /\ m.e2i[d] # 0) => m.e2i[d] # m.e2i[e]
  /\ \A d \in Docs : m.e2i[d] <= m.ctr
  /\ DOMAIN m.meta = {m.e2i[d] : d \in LiveDocs}
  /\ \A d \in LiveDocs : m.meta[m.e2i[d]] = cur[d]

Inv_StatsFresh ==
  /\ m.N = FN
  /\ m.total = FTotal
  /\ DOMAIN m.dl = {m.e2i[d] : d \in TextDocs}
  /\ \A d \in TextDocs : m.dl[m.e2i[d]] = FLen(d)
  /\ \A t \in Terms : m.post[t] = {<<m.e2i[d], Tf(cur[d], t)>> : d \in {x \in TextDocs : Tf(cur[x], t) > 0}}

\* what FindIDsByTextSearch collects (union of the posting lists of the query terms) is the candidate set
Inv_Candidates ==
  \A q \in SUBSET Terms :
    {e[1] : e \in UNION {m.post[t] : t \in q}} = {m.e2i[d] : d \in Candidates(q)}

\* a restart and a compression are invisible to the text index (C01 durability is what makes Restart see the current corpus)
Inv_RestartFresh ==
  LET r == Restart(snap, log)
  IN /\ r.N = m.N /\ r.total = m.total
     /\ \A d \in Docs : (r.e2i[d] # 0) <=> (m.e2i[d] # 0)
     /\ DOMAIN r.meta = {r.e2i[d] : d \in LiveDocs}
     /\ \A d \in LiveDocs : r.meta[r.e2i[d]] = cur[d]
     /\ DOMAIN r.dl = {r.e2i[d] : d \in TextDocs}
     /\ DOMAIN m.dl = {m.e2i[d] : d \in TextDocs}
     /\ \A d \in TextDocs : r.dl[r.e2i[d]] = m.dl[m.e2i[d]]
     /\ \A t \in Terms : UNION {{<<d, e[2]>> : e \in {x \in r.post[t] : x[1] = r.e2i[d]}} : d \in TextDocs}
                       = UNION {{<<d, e[2]>> : e \in {x \in m.post[t] : x[1] = m.e2i[d]}} : d \in TextDocs}
     /\ \A t \in Terms : Cardinality(r.post[t]) = Cardinality(m.post[t])

(***************************************************************************)
(* Vector side (exact: integer lattice) and fusion as order constraints    *)
(***************************************************************************)
RECURSIVE SqSum(_, _, _)
SqSum(u, w, i) == IF i = 0 THEN 0 ELSE (u[i] - w[i]) * (u[i] - w[i]) + SqSum(u, w, i - 1)
D2(u, w) == SqSum(u, w, Len(u))                      \* squared Euclidean distance
DocD2(j, d) == D2(QVecs[j], Pos[Idx(d)])

ASSUME /\ \A j \in 1..Len(QVecs) : \A a, b \in 1..ND : a # b => D2(QVecs[j], Pos[a]) # D2(QVecs[j], Pos[b])
       /\ \A j \in 1..Len(QVecs) : \E i \in 1..Len(QVecs[j]) : QVecs[j][i] # 0
       /\ \A a, b \in 1..ND : a # b => Pos[a] # Pos[b]

\* the live documents by increasing distance to query vector j (a total order: distances are distinct)
VectorOrder(j) ==
  LET ids == SetToSortSeq({Idx(d) : d \in LiveDocs}, LAMBDA a, b : D2(QVecs[j], Pos[a]) < D2(QVecs[j], Pos[b]))
  IN ids

\* --- order constraints on a result list `res` (a sequence of documents); rk: rank, smaller is better, equal = tie
RangeOf(s) == {s[i] : i \in 1..Len(s)}
Injective(s) == \A i, j \in 1..Len(s) : i # j => s[i] # s[j]
SortedBy(s, rk) == \A i, j \in 1..Len(s) : i < j => rk[s[i]] <= rk[s[j]]
\* res is a selection of the k best members of S by rk (ties may be broken either way)
TopK(res, S, rk, k) ==
  /\ Injective(res) /\ RangeOf(res) \subseteq S
  /\ Len(res) = Min2(k, Cardinality(S))
  /\ SortedBy(res, rk)
  /\ \A x \in S \ RangeOf(res), y \in RangeOf(res) : rk[y] <= rk[x]

\* text-only query (nil or all-zero query vector): the candidates in text order, cut at k
TextOnlyOK(res, C, trk, k) == TopK(res, C, trk, k)
\* alpha = 1: the order is the vector order.  L = live (and allowed) documents
VectorOnlyOK(res, L, vrk, k) == TopK(res, L, vrk, k)
\* alpha = 0: the order is the text order; documents without a text score (fused score 0) follow, in any order
TextFirstOK(res, L, C, trk, k) ==
  LET n == Min2(Min2(k, Cardinality(C)), Len(res))
  IN /\ Injective(res) /\ RangeOf(res) \subseteq L
     /\ Len(res) = Min2(k, Cardinality(L))
     /\ TopK(SubSeq(res, 1, n), C, trk, k)
     /\ \A i \in (n + 1)..Len(res) : res[i] \notin C
\* 0 < alpha < 1, any k -- the documented formula on EVERY live (allowed) document:
\*   score(d) = alpha * 1/(1+dist(d)) + (1-alpha) * bm25(d)/max     (bm25(d) = 0 unless d is a candidate; max over the allowed candidates)
\* and the result is a selection of the k best of L by that score.  The real-valued score enters as the pre-order frk
\* (dense rank of the score the harness evaluated from the specification's integers; ties share a rank).
HybridOK(res, L, frk, k) == TopK(res, L, frk, k)

\* Named deviation (NOT the rule): "late fusion with a truncated vector side" -- score only the pool
\* (k nearest) \cup (all candidates) and give a candidate outside the k nearest no vector term.  It differs from the
\* formula exactly when some candidate lies outside the k nearest; Canary_LateFusionIsFormula claims that never happens
\* and TLC must refute it (the check fails if it cannot: the small-k searches would then not tell the two rules apart).
VecTopK(L, vrk, k) == {d \in L : Cardinality({x \in L : vrk[x] < vrk[d]}) < k}
LateFusionDropsVectorTerm(L, C, vrk, k) == C \ VecTopK(L, vrk, k) # {}
FusionOK(mode, res, L, C, vrk, trk, frk, k) ==
  CASE mode = "textonly" -> TextOnlyOK(res, C, trk, k)
    [] mode = "alpha1"   -> VectorOnlyOK(res, L, vrk, k)
    [] mode = "alpha0"   -> TextFirstOK(res, L, C, trk, k)
    [] mode = "hybrid"   -> HybridOK(res, L, frk, k)

(***************************************************************************)
(* Model-checking plumbing: bounds, view, corpus channel                   *)
(***************************************************************************)
Bound == m.ctr <= MaxCtr /\ Len(log) <= MaxLog
\* state-cover mode: the history is not part of the state identity
View == <<cur, m, snap, log, compressed>>

\* the non-empty term subsets as queries: query number q \in 1..(2^NT - 1), bit t-1 set <=> term t in the query
QTerms(q) == {t \in Terms : (q \div (2^(t-1))) % 2 = 1}
RECURSIVE MaskOf(_)
MaskOf(S) == IF S = {} THEN 0 ELSE LET d == CHOOSE x \in S : TRUE IN 2^(Idx(d) - 1) + MaskOf(S \ {d})

Obs == [ cur   |-> [i \in 1..ND |-> cur[DocSeq[i]]],
         N     |-> FN,
         total |-> FTotal,
         len   |-> [i \in 1..ND |-> IF IsText(cur[DocSeq[i]]) THEN FLen(DocSeq[i]) ELSE -1],
         tf    |-> [t \in Terms |-> [i \in 1..ND |-> FTf(t, DocSeq[i])]],
         df    |-> [t \in Terms |-> FDf(t)],
         cand  |-> [q \in 1..(2^NT - 1) |-> MaskOf(Candidates(QTerms(q)))],
         vo    |-> [j \in 1..Len(QVecs) |-> VectorOrder(j)] ]

Geometry == [ docs |-> DocSeq, pos |-> Pos, qvecs |-> QVecs,
              d2 |-> [j \in 1..Len(QVecs) |-> [i \in 1..ND |-> D2(QVecs[j], Pos[i])]] ]

Canary_LateFusionIsFormula ==
  \A j \in 1..Len(QVecs), q \in 1..(2^NT - 1), k \in 1..ND :
    ~LateFusionDropsVectorTerm(LiveDocs, Candidates(QTerms(q)), [d \in Docs |-> DocD2(j, d)], k)

Emit_Corpus == PrintT(<<"CORPUS", ToJson([ops |-> hist, obs |-> Obs])>>)
NextCorpus == Emit_Corpus /\ Next
SpecCorpus == Init /\ [][NextCorpus]_vars
=============================================================================
