----------------------------- MODULE Trace_Conc -----------------------------
(***************************************************************************)
(* Trace validation for C13: a trace recorded from the real engine under   *)
(* concurrent load (race-detector build) is explained as a behaviour of a  *)
(* small per-item register machine:                                        *)
(*   rf.lin(id, n)   inside VReinforce, under the node's metadata lock,    *)
(*                   after the journal write: the new _access_count        *)
(*   call/ret        every engine call of every client goroutine           *)
(*   kv.w / kv.r     KV writes (value v to key k) and reads with result    *)
(*   close.done      Engine.Close returned                                 *)
(*   final(id, count, keys)  state read after all calls returned           *)
(* Requirements: rf.lin values per id are 1,2,3,... without gap or repeat  *)
(* (no lost update); a KV read returns a value some write to that key had  *)
(* started to write (or absent, or the initial value); a call that STARTED *)
(* after close.done returns an error; the final count of an id equals the  *)
(* number of reinforce calls that returned nil, and the final key set      *)
(* contains every key whose VSetMetadata returned nil; every call returns. *)
(***************************************************************************)
EXTENDS Integers, Sequences, FiniteSets, TLC, Json, IOUtils

TraceLog == ndJsonDeserialize(IOEnv.TRACE)
CONSTANTS Items, KVKeys

VARIABLES l, cnt, okrf, okkeys, written, closed, open, lateStart,
          vlive,    \* ids of the shared index that may be live now: an add was started and no delete has completed since
          sopen,    \* [search call id -> ids that may have been live at some instant of the search so far]
          ixsure,   \* index names that surely exist: a VCreate returned nil and no VDeleteIndex of that name has started since
          copen,    \* [open VCreate call id -> [ix: its name, free: the name may have been free at some instant of the call so far]]
          dopen,    \* [open VDeleteIndex call id -> its name]
          rwo       \* [open RewriteAOF call id -> another RewriteAOF call was running at some instant of this one]
tvars == <<l, cnt, okrf, okkeys, written, closed, open, lateStart, vlive, sopen, ixsure, copen, dopen, rwo>>

\* C06 under concurrency: a search returns only vectors that were live at some instant between its call and its
\* return -- never one whose delete had completed before the search started (ids are added/deleted by their owner
\* only, so the liveness window of an id is read off the call/ret events), no duplicates, at most k results
Adders == {"VAdd", "VAddBatch", "VImport"}
SeqToSet(sq) == {sq[i] : i \in 1..Len(sq)}
NoDup(sq) == \A i, j \in 1..Len(sq) : i # j => sq[i] # sq[j] \/ sq[i] = "EVOLVED"

Mutating == {"KVSet", "KVDelete", "VAdd", "VAddBatch", "VDelete", "VSetMetadata", "VReinforce", "VLink", "VUnlink",
             "VCreate", "VDeleteIndex", "SaveSnapshot", "RewriteAOF", "VImport", "VImportCommit", "VEvolve"}
Ev == TraceLog[l]
IsEv(n) == l <= Len(TraceLog) /\ Ev.e = n
Consume == l' = l + 1

TraceInit == /\ l = 1 /\ cnt = [i \in Items |-> 0] /\ okrf = [i \in Items |-> 0] /\ okkeys = [i \in Items |-> {}]
             /\ written = [k \in KVKeys |-> {"absent"}] /\ closed = FALSE /\ open = {} /\ lateStart = {}
             /\ vlive = Items \cup {"EVOLVED"} /\ sopen = <<>>
             /\ ixsure = {} /\ copen = <<>> /\ dopen = <<>> /\ rwo = <<>>

T_Call == /\ IsEv("call") /\ Consume
          /\ open' = open \cup {Ev.id}
          /\ lateStart' = IF closed THEN lateStart \cup {Ev.id} ELSE lateStart
          /\ written' = IF Ev.op = "KVSet" THEN [written EXCEPT ![Ev.k] = @ \cup {Ev.v}] ELSE written
          /\ vlive' = IF Ev.op \in Adders THEN vlive \cup SeqToSet(Ev.vids) ELSE vlive
          /\ sopen' = IF Ev.op = "VSearch" THEN [x \in DOMAIN sopen \cup {Ev.id} |-> IF x = Ev.id THEN vlive ELSE sopen[x]]
                      ELSE IF Ev.op \in Adders THEN [x \in DOMAIN sopen |-> sopen[x] \cup SeqToSet(Ev.vids)]
                      ELSE sopen
          \* index names: a create may succeed only if its name may have been free at some instant of the call
          /\ copen' = IF Ev.op = "VCreate"
                       THEN [x \in DOMAIN copen \cup {Ev.id} |-> IF x = Ev.id THEN [ix |-> Ev.ix, free |-> Ev.ix \notin ixsure] ELSE copen[x]]
                       ELSE IF Ev.op = "VDeleteIndex"
                       THEN [x \in DOMAIN copen |-> IF copen[x].ix = Ev.ix THEN [copen[x] EXCEPT !.free = TRUE] ELSE copen[x]]
                       ELSE copen
          /\ dopen' = IF Ev.op = "VDeleteIndex" THEN [x \in DOMAIN dopen \cup {Ev.id} |-> IF x = Ev.id THEN Ev.ix ELSE dopen[x]] ELSE dopen
          /\ ixsure' = IF Ev.op = "VDeleteIndex" THEN ixsure \ {Ev.ix} ELSE ixsure
          /\ rwo' = IF Ev.op = "RewriteAOF"
                     THEN [x \in DOMAIN rwo \cup {Ev.id} |-> IF x = Ev.id THEN DOMAIN rwo # {} ELSE TRUE]
                     ELSE rwo
          /\ UNCHANGED <<cnt, okrf, okkeys, closed>>

T_RfLin == /\ IsEv("rf.lin") /\ Consume
           /\ Ev.n = cnt[Ev.item] + 1                    \* exactly the next count: no lost update, no repeat
           /\ cnt' = [cnt EXCEPT ![Ev.item] = Ev.n]
           /\ UNCHANGED <<okrf, okkeys, written, closed, open, lateStart, vlive, sopen, ixsure, copen, dopen, rwo>>

T_Ret == /\ IsEv("ret") /\ Consume
         /\ Ev.id \in open
         /\ open' = open \ {Ev.id}
         \* mutating calls after Close fail cleanly. (RewriteAOF returns nil without doing anything when another compaction
         \* is running -- "already in progress" -- also after Close: that is not a success of the late call.)
         /\ ((Ev.id \in lateStart /\ Ev.op \in Mutating) => (~Ev.ok \/ (Ev.op = "RewriteAOF" /\ rwo[Ev.id])))
         /\ rwo' = IF Ev.op = "RewriteAOF" THEN [x \in DOMAIN rwo \ {Ev.id} |-> rwo[x]] ELSE rwo
         /\ (Ev.op = "KVGet" => Ev.v \in written[Ev.k])  \* a read never sees a value that was not written
         /\ okrf' = IF Ev.op = "VReinforce" /\ Ev.ok THEN [okrf EXCEPT ![Ev.item] = @ + 1] ELSE okrf
         /\ okkeys' = IF Ev.op = "VSetMetadata" /\ Ev.ok THEN [okkeys EXCEPT ![Ev.item] = @ \cup {Ev.k}] ELSE okkeys
         /\ (Ev.op = "VSearch" /\ Ev.ok) =>
               /\ SeqToSet(Ev.ids) \subseteq sopen[Ev.id]      \* only vectors live at some instant of the search
               /\ NoDup(Ev.ids) /\ Len(Ev.ids) <= 3
         /\ vlive' = IF Ev.op = "VDelete" /\ Ev.ok THEN vlive \ SeqToSet(Ev.vids) ELSE vlive
         /\ sopen' = IF Ev.op = "VSearch" THEN [x \in DOMAIN sopen \ {Ev.id} |-> sopen[x]] ELSE sopen
         \* "exactly one creator of a name wins": a VCreate that returns nil needs an instant at which the name was free;
         \* once it has returned, the other creators of that name still running need a VDeleteIndex of it (one in flight
         \* now, or one that starts later) to succeed as well
         /\ ((Ev.op = "VCreate" /\ Ev.ok) => copen[Ev.id].free)
         /\ copen' = IF Ev.op = "VCreate"
                      THEN [x \in DOMAIN copen \ {Ev.id} |->
                              IF Ev.ok /\ copen[x].ix = Ev.ix
                              THEN [copen[x] EXCEPT !.free = \E d \in DOMAIN dopen : dopen[d] = Ev.ix]
                              ELSE copen[x]]
                      ELSE copen
         /\ dopen' = IF Ev.op = "VDeleteIndex" THEN [x \in DOMAIN dopen \ {Ev.id} |-> dopen[x]] ELSE dopen
         /\ ixsure' = IF Ev.op = "VCreate" /\ Ev.ok /\ ~\E d \in DOMAIN dopen : dopen[d] = Ev.ix THEN ixsure \cup {Ev.ix} ELSE ixsure
         /\ UNCHANGED <<cnt, written, closed, lateStart>>

T_Closed == /\ IsEv("close.done") /\ Consume /\ closed' = TRUE
            /\ UNCHANGED <<cnt, okrf, okkeys, written, open, lateStart, vlive, sopen, ixsure, copen, dopen, rwo>>

\* read after a VLink and a VUnlink of the same edge, issued at the same time, have both returned: the forward list of
\* the source and the reverse list of the target agree about the edge (no half edge), whichever call took effect last
T_EdgeView == /\ IsEv("edgeview") /\ Consume
              /\ Ev.fwd = Ev.rev
              /\ UNCHANGED <<cnt, okrf, okkeys, written, closed, open, lateStart, vlive, sopen, ixsure, copen, dopen, rwo>>

T_Final == /\ IsEv("final") /\ Consume
           /\ open = {}                                   \* every call returned
           /\ Ev.count = okrf[Ev.item]                    \* every acknowledged reinforcement is counted, none twice
           /\ okkeys[Ev.item] \subseteq {Ev.keys[i] : i \in 1..Len(Ev.keys)}   \* every merged key kept
           /\ UNCHANGED <<cnt, okrf, okkeys, written, closed, open, lateStart, vlive, sopen, ixsure, copen, dopen, rwo>>

TraceNext == T_Call \/ T_RfLin \/ T_Ret \/ T_Closed \/ T_Final \/ T_EdgeView
TraceSpec == TraceInit /\ [][TraceNext]_tvars

ASSUME TLCSet(1, 0)
HighWater == TLCSet(1, IF l > TLCGet(1) THEN l ELSE TLCGet(1))
TraceAccepted ==
  IF TLCGet(1) = Len(TraceLog) + 1 THEN TRUE
  ELSE /\ PrintT(<<"REJECTED", ToJson([at |-> TLCGet(1), of |-> Len(TraceLog),
                                         ev |-> IF TLCGet(1) <= Len(TraceLog) THEN TraceLog[TLCGet(1)] ELSE [e |-> "eof"]])>>)
       /\ FALSE
\* the reinforce linearisation count never runs ahead of what the model allows
TInv_CountsBounded == \A i \in Items : okrf[i] <= cnt[i]
=============================================================================
