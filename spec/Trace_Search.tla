---------------------------- MODULE Trace_Search ----------------------------
(***************************************************************************)
(* Trace validation for C06 / C07 on indexes beyond the small regime.      *)
(*                                                                         *)
(* harness/cmd/vsearch (command recall) loads a REAL engine with a few     *)
(* hundred lattice vectors through every insertion path (single, batch,    *)
(* fast import + commit), deletes, vacuums, refines, re-adds, compresses   *)
(* and restarts it, and records as ndjson                                  *)
(*   add(id, v)  del(id)           every change of the contents            *)
(*   phase(name)                   a new group of searches begins          *)
(*   search(q, k, ef, ids)         every search with the ids it returned   *)
(* This module replays the contents, recomputes with exact integer         *)
(* arithmetic (SearchMath) how many live vectors are STRICTLY nearer to    *)
(* the query than each returned id, and checks                             *)
(*   C06  every answer is admissible: live ids only, no duplicates, at     *)
(*        most k, never a strictly nearer id after a farther one           *)
(*   C07  per phase, recall = (returned ids with fewer than k strictly     *)
(*        nearer live vectors) / min(k, live) stays above the floors:      *)
(*        FloorHi for ef >= 50, FloorLo for the default ef, FloorSelf for  *)
(*        k = 1 queries by the value of a stored vector (self retrieval:   *)
(*        the answer must be at distance 0 of the query)                   *)
(* Floors are percentages fixed after measuring the unchanged tree (see    *)
(* tools/search_checks.py); the measured values are printed (RECALL).      *)
(***************************************************************************)
EXTENDS SearchMath, FiniteSets, TLC, Json, IOUtils

TraceLog == ndJsonDeserialize(IOEnv.TRACE)
CONSTANTS FloorHi, FloorLo, FloorSelf, CheckOrder, CheckAdm

VARIABLES l,        \* next line of the trace
          live,     \* id -> vector
          st,       \* counters of the current phase
          bad       \* <<>> or <<what went wrong>>
tvars == <<l, live, st, bad>>

Ev == TraceLog[l]
IsEv(n) == l <= Len(TraceLog) /\ Ev.e = n
Zero(name) == [name |-> name, hi |-> 0, hiN |-> 0, lo |-> 0, loN |-> 0, self |-> 0, selfN |-> 0, searches |-> 0, size |-> 0]

TInit == l = 1 /\ live = <<>> /\ st = Zero("") /\ bad = <<>>

Min(a, b) == IF a < b THEN a ELSE b
Pct(h, n) == IF n = 0 THEN 100 ELSE (100 * h) \div n
PhaseOK(s) == Pct(s.hi, s.hiN) >= FloorHi /\ Pct(s.lo, s.loN) >= FloorLo /\ Pct(s.self, s.selfN) >= FloorSelf

T_Add == /\ IsEv("add")
         /\ live' = (Ev.id :> Ev.v) @@ live
         /\ l' = l + 1 /\ UNCHANGED <<st, bad>>
T_Del == /\ IsEv("del")
         /\ live' = [i \in DOMAIN live \ {Ev.id} |-> live[i]]
         /\ l' = l + 1 /\ UNCHANGED <<st, bad>>

\* close the running phase (print and judge it), open the next one
ClosePhase == /\ (st.searches > 0 => PrintT(<<"RECALL", ToJson(st)>>))
              /\ bad' = IF bad = <<>> /\ st.searches > 0 /\ ~PhaseOK(st)
                          THEN <<[what |-> "recall_below_floor", phase |-> st]>> ELSE bad
T_Phase == /\ IsEv("phase") /\ ClosePhase
           /\ st' = [Zero(Ev.name) EXCEPT !.size = Cardinality(DOMAIN live)]
           /\ l' = l + 1 /\ UNCHANGED live
T_End == /\ IsEv("end") /\ ClosePhase
         /\ st' = Zero("") /\ l' = l + 1 /\ UNCHANGED live

T_Search ==
  /\ IsEv("search")
  /\ LET q == Ev.q   k == Ev.k   ids == Ev.ids
         L == DOMAIN live
         d == [i \in L |-> IF Metric = "euclid" THEN D2(q, live[i]) ELSE Dot(q, live[i])]
         nn == [i \in L |-> IF Metric = "euclid" THEN 0 ELSE Dot(live[i], live[i])]
         Nearer(i, j) == IF Metric = "euclid" THEN d[i] < d[j] ELSE CosGreaterD(d[i], nn[i], d[j], nn[j])
         known == {n \in 1..Len(ids) : ids[n] \in L}
         Rank(i) == Cardinality({j \in L : Nearer(j, i)})
         hits == Cardinality({n \in known : Rank(ids[n]) < k})
         total == Min(k, Cardinality(L))
         adm == /\ known = 1..Len(ids)
                /\ \A n, p \in 1..Len(ids) : n # p => ids[n] # ids[p]
                /\ Len(ids) <= k
                /\ CheckOrder => \A n, p \in known : n < p => ~Nearer(ids[p], ids[n])
     IN
     /\ bad' = IF bad = <<>> /\ CheckAdm /\ ~adm THEN <<[what |-> "trace_inadmissible", line |-> l, ev |-> Ev]>> ELSE bad
     /\ st' = [st EXCEPT !.searches = @ + 1,
                         !.hi = IF Ev.ef >= 50 THEN @ + hits ELSE @,   !.hiN = IF Ev.ef >= 50 THEN @ + total ELSE @,
                         !.lo = IF Ev.ef < 50 /\ ~Ev.self THEN @ + hits ELSE @,
                         !.loN = IF Ev.ef < 50 /\ ~Ev.self THEN @ + total ELSE @,
                         !.self = IF Ev.self THEN @ + hits ELSE @,     !.selfN = IF Ev.self THEN @ + total ELSE @]
  /\ l' = l + 1 /\ UNCHANGED live

T_Cfg == IsEv("cfg") /\ l' = l + 1 /\ UNCHANGED <<live, st, bad>>

TNext == T_Cfg \/ T_Add \/ T_Del \/ T_Phase \/ T_Search \/ T_End
TraceSpec == TInit /\ [][TNext]_tvars

\* C06 on the recorded answers / C07 on the recorded recall (the first failure is kept in bad)
Inv_Trace == bad = <<>>
\* the whole trace is consumed (checked as a POSTCONDITION-free invariant: a stuck trace leaves l short)
TraceDone == l = Len(TraceLog) + 1
Inv_Progress == TRUE
=============================================================================
