--------------------------- MODULE Trace_TextIdx ----------------------------
(***************************************************************************)
(* Backward conformance for the fusion rules of TextIdx.tla.               *)
(*                                                                         *)
(* harness/cmd/vtext records searches of the REAL engine (VSearch /        *)
(* VSearchGraph with alpha = 0, alpha = 1 and text-only queries) as ndjson *)
(* records                                                                 *)
(*   mode  "alpha0" | "alpha1" | "textonly" | "hybrid" (0 < alpha < 1)     *)
(*   k     the k of the call                                               *)
(*   res   the returned documents, in order (1-based indices into DocSeq)  *)
(*   L     live (and allowed) documents,  C  candidates (and allowed) of   *)
(*         the query in the specification's state                          *)
(*   vrk   vector rank of every document: the specification's squared      *)
(*         distance to the query vector                                    *)
(*   trk   text rank of every document: dense rank of the BM25 score the   *)
(*         harness evaluated from the specification's integers (ties       *)
(*         share a rank; the pre-order is supplied by the log, TLC has no  *)
(*         reals)                                                          *)
(*   frk   fused rank (mode hybrid): dense rank, over ALL documents of L,   *)
(*         of alpha/(1+d) + (1-alpha)*bm25/max evaluated by the harness    *)
(*   ok    the harness's own verdict (judge.go)                            *)
(* Every record is judged here with the TLA+ predicates themselves         *)
(* (FusionOK = TextOnlyOK / VectorOnlyOK / TextFirstOK / HybridOK); the    *)
(* verdicts must                                                           *)
(* coincide.                                                               *)
(***************************************************************************)
EXTENDS MC_TextIdx, IOUtils

TraceLog == ndJsonDeserialize(IOEnv.TRACE)

VARIABLE i        \* number of records judged so far
tvars == <<vars, i>>

TraceInit == Init /\ i = 0
TraceNext == /\ i < Len(TraceLog)
             /\ i' = i + 1
             /\ UNCHANGED vars
TraceSpec == TraceInit /\ [][TraceNext]_tvars

Verdict(r) == FusionOK(r.mode, r.res, RangeOf(r.L), RangeOf(r.C), r.vrk, r.trk, r.frk, r.k)
Inv_Verdicts == i > 0 => (Verdict(TraceLog[i]) <=> TraceLog[i].ok)
=============================================================================
