---------------------------- MODULE Trace_Writer ----------------------------
(***************************************************************************)
(* Trace validation for Writer.tla (backward conformance).                 *)
(*                                                                         *)
(* A trace is recorded from the REAL engine under unforced concurrent load *)
(* by the verif hooks (one totally ordered ndjson event list):             *)
(*   journaling(c)      client c is about to call AOF.Write   (KVSet)      *)
(*   journaled(c)       AOF.Write returned nil                              *)
(*   ack(c, v, ok)      KVSet(key c, version v) returned (ok = nil error)   *)
(*   cmd(kind, nbuf, nshadow, mode)  the writer goroutine is about to serve *)
(*                      a control command; logged AFTER drainPending, with  *)
(*                      the lengths of its two buffers and its mode flag    *)
(*   snap.* / rw.*      phase boundaries of SaveSnapshot / RewriteAOF       *)
(*   recovered(vals)    what Close + Open read back (last event)            *)
(* Steps the hooks cannot see are silent actions of Writer.tla: the entry   *)
(* entering writeCh (C_Enqueue), the memory update (C_Apply), the writer    *)
(* receiving one entry (W_Recv), a ticker flush (W_Tick) and the state      *)
(* capture of the admin procedure (A_Capture).                              *)
(* Every event is a Writer.tla action constrained by its logged fields.     *)
(* The trace is accepted iff some interleaving of silent steps explains     *)
(* every event, in order; all invariants of Writer.tla are evaluated on the *)
(* explaining behaviours.                                                   *)
(***************************************************************************)
EXTENDS Writer, Json, IOUtils, TLC

TraceLog == ndJsonDeserialize(IOEnv.TRACE)

VARIABLES l,        \* index of the next event to explain
          ackseen,  \* [Clients -> highest version whose ack(ok) EVENT has been consumed]
          ackclose, \* ackseen at the close.start event: the writes acknowledged before Close was invoked
          closing   \* Close has been invoked (LazyAOFWriter refuses new writes from that moment, before the close
                    \* command is served)
tvars == <<vars, l, ackseen, ackclose, closing>>

Ev == TraceLog[l]
IsEv(name) == l <= Len(TraceLog) /\ Ev.e = name
Consume == l' = l + 1
Keep == UNCHANGED <<ackseen, ackclose, closing>>

\* ---- client events --------------------------------------------------------
T_Journaling ==
  /\ IsEv("journaling") /\ Consume
  /\ C_Start(Ev.c)

T_Journaled ==
  /\ IsEv("journaled") /\ Consume
  /\ cpc[Ev.c] = "sent"
  /\ UNCHANGED vars

T_Ack ==
  /\ IsEv("ack") /\ Consume
  /\ cpc[Ev.c] = "idle"
  /\ IF Ev.ok THEN acked[Ev.c] = Ev.v /\ cver[Ev.c] = Ev.v
              ELSE acked[Ev.c] < Ev.v        \* a refused call acknowledges nothing
  /\ ackseen' = IF Ev.ok THEN [ackseen EXCEPT ![Ev.c] = Ev.v] ELSE ackseen
  /\ UNCHANGED <<vars, ackclose, closing>>

T_CloseStart ==
  /\ IsEv("close.start") /\ Consume
  /\ ackclose' = ackseen
  /\ closing' = TRUE
  /\ UNCHANGED <<vars, ackseen>>

\* ---- writer commands (linearised in the writer goroutine) ----------------
\* The event is emitted right after drainPending, but other goroutines can slip events in between the
\* drain and the emission: entries whose "journaled" event precedes this event may have been enqueued
\* after the drain. So the command drains SOME prefix of the queue (the logged buffer lengths pin which).
Split == {k \in 0..Len(q) : TRUE}
QQ(k) == SubSeq(q, 1, k)
Rest(k) == SubSeq(q, k + 1, Len(q))
FieldsK(k) == /\ Len(DrainedOf(QQ(k)).b) = Ev.nbuf /\ Len(DrainedOf(QQ(k)).s) = Ev.nshadow /\ mode = Ev.mode

T_CmdFlush ==            \* cmdFlush / cmdSync
  /\ IsEv("cmd") /\ Ev.kind \in {"flush", "sync"} /\ Consume
  /\ ~wclosed
  /\ \E k \in Split : FieldsK(k) /\
        /\ q' = Rest(k) /\ shadow' = DrainedOf(QQ(k)).s /\ file' = file \o DrainedOf(QQ(k)).b /\ buf' = <<>>
  /\ UNCHANGED <<cpc, cver, memv, acked, mode, wclosed, wdead, ackpre, snap, apc, img, pre, pend, nadmin, nflush, dev>>

T_CmdNoop ==             \* cmdErr / cmdIsSnapshotActive: only the drain
  /\ IsEv("cmd") /\ Ev.kind \in {"err", "isactive"} /\ Consume
  /\ \E k \in Split : FieldsK(k) /\
        /\ q' = Rest(k) /\ shadow' = DrainedOf(QQ(k)).s /\ buf' = DrainedOf(QQ(k)).b
  /\ UNCHANGED <<cpc, cver, memv, acked, mode, wclosed, wdead, ackpre, file, snap, apc, img, pre, pend, nadmin, nflush, dev>>

T_CmdBegin ==
  /\ IsEv("cmd") /\ Ev.kind = "begin" /\ Consume
  /\ \E k \in Split : FieldsK(k) /\
     IF mode
     THEN \* refused: snapshot mode already active (overlapping snapshot + compaction requests)
          /\ q' = Rest(k) /\ shadow' = DrainedOf(QQ(k)).s /\ buf' = DrainedOf(QQ(k)).b
          /\ UNCHANGED <<file, mode, apc, nadmin, dev, pre>>
     ELSE /\ apc = "idle"
          /\ nadmin' = nadmin + 1
          /\ q' = Rest(k) /\ file' = file \o DrainedOf(QQ(k)).b /\ buf' = <<>> /\ shadow' = <<>> /\ mode' = TRUE
          /\ apc' = "begun"
          /\ dev' = IF InFlight /\ ~CaptureWaits THEN dev \cup {"gap"} ELSE dev
          /\ pre' = IF CaptureWaits THEN {c \in Clients : cpc[c] # "idle"} ELSE {}
  /\ UNCHANGED <<cpc, cver, memv, acked, wclosed, wdead, ackpre, snap, img, pend, nflush>>

\* which procedure runs is learnt from its first phase event
T_PhaseBegin ==
  /\ IsEv("snap.begin") \/ IsEv("rw.begin")
  /\ Consume
  /\ apc = "begun"
  /\ apc' = (IF Ev.e = "snap.begin" THEN "snap.begun" ELSE "rw.begun")
  /\ UNCHANGED <<cpc, cver, memv, acked, q, buf, shadow, mode, wclosed, wdead, ackpre, file, snap, img, pre, pend, nadmin, nflush, dev>>

T_Captured ==            \* snap.tmp_written / rw.captured: the capture (silent) has happened
  /\ (IsEv("snap.tmp_written") /\ apc = "snap.captured") \/ (IsEv("rw.captured") /\ apc = "rw.captured")
  /\ Consume
  /\ UNCHANGED vars

\* the KV capture of a compaction is logged (hook in DB.IterateKV, under the KV lock): it is the capture step of
\* the specification and must come after Begin (a capture taken before BeginSnapshotMode misses writes that go to
\* the old log afterwards)
T_CaptureKV == IsEv("capture.kv") /\ Consume /\ A_Capture("rw")

T_Renamed == IsEv("snap.renamed") /\ Consume /\ S_Rename

T_CmdTruncate ==
  /\ IsEv("cmd") /\ Ev.kind = "truncate" /\ Consume
  /\ \E k \in Split : FieldsK(k) /\ S_TruncateQ(QQ(k), Rest(k))

T_CmdReplace ==
  /\ IsEv("cmd") /\ Ev.kind = "replace" /\ Consume
  /\ \E k \in Split : FieldsK(k) /\ R_ReplaceQ(QQ(k), Rest(k))

T_PhaseInfo ==           \* events that only confirm a phase already taken
  /\ \/ IsEv("snap.truncated") /\ apc = "snap.truncated"
     \/ IsEv("rw.tmp_written") /\ apc = "rw.captured"
     \/ IsEv("rw.replaced") /\ apc = "rw.truncated"
     \* (emitted by the requester after its endreappend command was served; with two requesters the next Begin may
     \*  already have been served in between, so nothing is asserted about apc here)
     \/ IsEv("snap.ended")
     \/ IsEv("rw.ended")
     \/ IsEv("snap.reappended") \/ IsEv("rw.reappended")
     \/ IsEv("close.done") /\ wdead
  /\ Consume
  /\ UNCHANGED vars

T_CmdEndReappend ==
  /\ IsEv("cmd") /\ Ev.kind = "endreappend" /\ Consume
  /\ \E k \in Split : FieldsK(k) /\
     \/ A_EndQ("snap", QQ(k), Rest(k)) \/ A_EndQ("rw", QQ(k), Rest(k))
     \/ \* error-path cleanup of a procedure that failed before truncating: leave snapshot mode, keep the log
        /\ mode /\ apc \in {"begun", "snap.begun", "snap.captured", "snap.renamed", "rw.begun", "rw.captured"}
        /\ q' = Rest(k) /\ shadow' = <<>> /\ mode' = FALSE
        /\ file' = file \o DrainedOf(QQ(k)).b \o DrainedOf(QQ(k)).s /\ buf' = <<>>
        /\ apc' = "idle"
        /\ UNCHANGED <<cpc, cver, memv, acked, wclosed, wdead, ackpre, snap, img, pre, pend, nadmin, nflush, dev>>

T_CmdClose ==
  /\ IsEv("cmd") /\ Ev.kind = "close" /\ Consume
  /\ \E k \in Split : FieldsK(k) /\ W_CloseQ(QQ(k), Rest(k))

\* ---- the end of the trace: what the restart read --------------------------
T_Recovered ==
  /\ IsEv("recovered") /\ Consume
  /\ wclosed
  /\ \A c \in Clients : Recover(snap, file)[c] = Ev.vals[c]
  /\ UNCHANGED vars

\* ---- silent steps -----------------------------------------------------------
\* Receive steps and ticker flushes of the writer goroutine are not logged. Their only observable
\* effect is how many of the queued entries have already reached the file, so for explaining a trace
\* they are folded into one step: the first k entries of (buffer ++ writeCh) are flushed.
S_TickFlush ==
  /\ ~wclosed /\ ~mode
  /\ \E k \in 1..Len(buf \o q) :
        /\ file' = file \o SubSeq(buf \o q, 1, k)
        /\ buf' = <<>>
        /\ q' = SubSeq(buf \o q, k + 1, Len(buf \o q))
  /\ UNCHANGED <<cpc, cver, memv, acked, shadow, mode, wclosed, wdead, ackpre, snap, apc, img, pre, pend, nadmin, nflush, dev>>

\* a write that had started when Close was invoked is refused by the closing writer: nothing queued, nothing applied
C_RefusedClosing(c) ==
  /\ closing /\ cpc[c] = "sending"
  /\ cpc' = [cpc EXCEPT ![c] = "idle"]
  /\ pre' = pre \ {c}
  /\ UNCHANGED <<cver, memv, acked, q, buf, shadow, mode, wclosed, wdead, ackpre, file, snap, apc, img, pend, nadmin, nflush, dev>>

Silent ==
  /\ l <= Len(TraceLog)
  /\ UNCHANGED l
  /\ \/ \E c \in Clients : C_Enqueue(c) \/ C_Apply(c) \/ C_RefusedClosing(c)
     \/ S_TickFlush \/ W_Dead \/ E_CoreClose
     \/ (wclosed /\ (S_Truncate \/ R_Replace \/ A_End("snap") \/ A_End("rw") \/ A_Fail))   \* command refused after Close: no cmd event
     \/ A_Capture("snap")

TraceInit == Init /\ l = 1 /\ ackseen = Zero /\ ackclose = Zero /\ closing = FALSE
TraceNext ==
  \/ T_Ack \/ T_CloseStart
  \/ (Keep /\ (\/ T_Journaling \/ T_Journaled
               \/ T_CmdFlush \/ T_CmdNoop \/ T_CmdBegin \/ T_PhaseBegin \/ T_Captured \/ T_CaptureKV \/ T_Renamed
               \/ T_CmdTruncate \/ T_CmdReplace \/ T_PhaseInfo \/ T_CmdEndReappend \/ T_CmdClose \/ T_Recovered
               \/ Silent))
TraceSpec == TraceInit /\ [][TraceNext]_tvars

\* acceptance: the high-water mark of explained events reaches the end of the trace
ASSUME TLCSet(1, 0)
HighWater == TLCSet(1, IF l > TLCGet(1) THEN l ELSE TLCGet(1))
TraceAccepted ==
  IF TLCGet(1) = Len(TraceLog) + 1 THEN TRUE
  ELSE /\ PrintT(<<"REJECTED", ToJson([at |-> TLCGet(1), of |-> Len(TraceLog),
                                         ev |-> IF TLCGet(1) <= Len(TraceLog) THEN TraceLog[TLCGet(1)] ELSE [e |-> "eof"]])>>)
       /\ FALSE

\* Checked on complete explanations only (the end of the trace): TLC also visits dead-end branches of the
\* explanation search, and an invariant violated there says nothing about the real execution.
\* C14 on the real execution: every write whose acknowledgement was OBSERVED before Close was invoked
\* is read back after the restart (unless the named gap deviation was exercised).  Since the Write/Close race was
\* repaired (7e3580a, DropRace = FALSE) this is required of EVERY observed acknowledgement, also those that arrive
\* while Close is in progress.
TInv_NoAckedLoss ==
  (l = Len(TraceLog) + 1 /\ wclosed) => (dev # {} \/ \A c \in Clients : Recover(snap, file)[c] >= (IF DropRace THEN ackclose[c] ELSE ackseen[c]))
=============================================================================
