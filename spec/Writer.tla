------------------------------- MODULE Writer -------------------------------
(***************************************************************************)
(* The concurrent write path of the engine:                                *)
(*   clients   : every mutating engine method is  journal ; apply ; return *)
(*               (AOF.Write returns as soon as the entry sits in writeCh)  *)
(*   writer    : persistence.LazyAOFWriter.run -- the single goroutine     *)
(*               that owns buffer / snapshotBuffer / inSnapshotMode and    *)
(*               serves writeCh (data) and cmdCh (control) in an order     *)
(*               chosen by Go's select                                     *)
(*   admin     : SaveSnapshot and RewriteAOF as the step sequences of      *)
(*               recovery.go                                               *)
(*   shutdown  : Engine.Close -> LazyAOFWriter.Close                       *)
(* Each client owns one item and writes versions 1,2,...  (a KV key).      *)
(* Disk: `file` (the command log) and `snap` (the snapshot image).         *)
(*                                                                         *)
(* Properties (C14): no acknowledged write is lost to a concurrent         *)
(* snapshot, compaction or shutdown; Flush covers acknowledged writes.     *)
(***************************************************************************)
EXTENDS Integers, Sequences, FiniteSets, TLC, SequencesExt

CONSTANTS Clients,     \* client / item identifiers
          MaxVer,      \* versions written per client
          MaxAdmin,    \* how many snapshots + compactions may be started
          MaxFlush,    \* how many explicit client Flush calls
          Barrier,     \* TRUE: Begin waits until no call is between journal and apply (a write barrier)
          CloseWaits,  \* TRUE: shutdown waits for a snapshot/compaction in progress
          CaptureWaits,\* TRUE: the capture of a snapshot/compaction waits for every call that started before Begin
                       \*       (beginWrite / waitForEarlierWrites in engine.go); FALSE: the older protocol with the gap
          DropRace,    \* TRUE: the older Write/Close race (a Write that passed the closing check is enqueued after the final
                       \*       drain: acknowledged and dropped); FALSE: Write enqueues under the lock Close takes first (7e3580a)
          SnapFails,   \* TRUE: a snapshot may fail after Begin (temp file cannot be created): error-path cleanup
          SnapCloseWaits, \* TRUE: shutdown waits for a SNAPSHOT in progress (Engine.Close takes adminMu, c40f673); a compaction
                       \*       is not waited for (its ReplaceWith is refused by the closed journal, the old log stays)
          Volatile     \* the clients whose item lives in the core that Engine.Close tears down (vector indexes: DB.Close
                       \* unmaps the arenas and forgets the indexes); the KV store stays readable after Close

VARIABLES
  cpc,      \* [Clients -> {"idle","sending","sent"}] : program counter of each client call
  cver,     \* [Clients -> 0..MaxVer] version of the call in progress / last issued
  memv,     \* [Clients -> 0..MaxVer] value applied in memory
  acked,    \* [Clients -> 0..MaxVer] highest version whose call returned nil
  q,        \* writeCh : Seq([c, v])
  buf,      \* writer's buffer
  shadow,   \* writer's snapshotBuffer
  mode,     \* inSnapshotMode
  wclosed,  \* the close command has been served (final flush done; nothing is written any more)
  wdead,    \* the writer goroutine has exited (closedCh closed): Write and commands are refused from here on
  ackpre,   \* [Clients -> ver] acknowledged when the close command was served (history, for C14)
  file,     \* the log on disk: Seq of [c, v] entries, or "RESET"
  snap,     \* <<>> or <<[Clients -> ver]>> : snapshot image on disk
  apc,      \* admin program counter
  img,      \* image captured by the admin procedure in progress
  pre,      \* calls that had started (possibly journaled to the old log) when Begin was served and have not applied yet
  pend,     \* shadow writes handed back by EndSnapshotMode, still to be re-appended
  nadmin, nflush,
  dev       \* history: named deviations exercised: "gap" = a Begin was served while some call sat between
            \* journal and apply; "close_during_admin" = shutdown while a snapshot/compaction was in progress

vars == <<cpc, cver, memv, acked, q, buf, shadow, mode, wclosed, wdead, ackpre, file, snap, apc, img, pre, pend, nadmin, nflush, dev>>

Zero == [c \in Clients |-> 0]
Reset == [c |-> "RESET", v |-> 0]
IsReset(e) == e.c = "RESET"

\* ---- what a restart would read -----------------------------------------
RECURSIVE ReplayFrom(_, _)
ReplayFrom(val, f) ==
  IF f = <<>> THEN val
  ELSE IF IsReset(Head(f)) THEN ReplayFrom(Zero, Tail(f))
  ELSE ReplayFrom([val EXCEPT ![Head(f).c] = Head(f).v], Tail(f))
Recover(s, f) == ReplayFrom(IF s = <<>> THEN Zero ELSE s[1], f)

\* ---- writer primitives (all inside the run goroutine) --------------------
\* drainPending: move everything queued in writeCh into the buffer it belongs to
DrainedOf(qq) == IF mode THEN [b |-> buf, s |-> shadow \o qq] ELSE [b |-> buf \o qq, s |-> shadow]
Drained == DrainedOf(q)

Init ==
  /\ cpc = [c \in Clients |-> "idle"] /\ cver = Zero /\ memv = Zero /\ acked = Zero
  /\ q = <<>> /\ buf = <<>> /\ shadow = <<>> /\ mode = FALSE /\ wclosed = FALSE /\ wdead = FALSE /\ ackpre = Zero
  /\ file = <<>> /\ snap = <<>> /\ apc = "idle" /\ img = Zero /\ pend = <<>> /\ pre = {}
  /\ nadmin = 0 /\ nflush = 0 /\ dev = {}

\* ---- clients -------------------------------------------------------------
\* the call starts: it will journal version cver'[c]
C_Start(c) ==
  /\ cpc[c] = "idle" /\ cver[c] < MaxVer
  /\ cver' = [cver EXCEPT ![c] = @ + 1]
  /\ cpc' = [cpc EXCEPT ![c] = "sending"]
  /\ UNCHANGED <<memv, acked, q, buf, shadow, mode, wclosed, wdead, ackpre, file, snap, apc, img, pre, pend, nadmin, nflush, dev>>

\* AOF.Write: the entry enters writeCh (or the call fails because the writer is closed)
C_Enqueue(c) ==
  /\ cpc[c] = "sending"
  /\ IF wdead
     THEN cpc' = [cpc EXCEPT ![c] = "idle"] /\ UNCHANGED q      \* Write returns an error, nothing applied
     ELSE IF wclosed
     THEN IF DropRace
          THEN \* (older protocol) a Write that passed the closing check earlier is still queued, acknowledged -- and dropped
               cpc' = [cpc EXCEPT ![c] = "sent"] /\ UNCHANGED q
          ELSE \* check and enqueue happen under the lock Close takes before its command: the Write is refused
               cpc' = [cpc EXCEPT ![c] = "idle"] /\ UNCHANGED q
     ELSE q' = Append(q, [c |-> c, v |-> cver[c]]) /\ cpc' = [cpc EXCEPT ![c] = "sent"]
  /\ pre' = IF wdead \/ (wclosed /\ ~DropRace) THEN pre \ {c} ELSE pre
  /\ UNCHANGED <<cver, memv, acked, buf, shadow, mode, wclosed, wdead, ackpre, file, snap, apc, img, pend, nadmin, nflush, dev>>

\* the memory mutation, then the call returns nil (acknowledged)
C_Apply(c) ==
  /\ cpc[c] = "sent"
  /\ memv' = [memv EXCEPT ![c] = cver[c]]
  /\ acked' = [acked EXCEPT ![c] = cver[c]]
  /\ cpc' = [cpc EXCEPT ![c] = "idle"]
  /\ pre' = pre \ {c}
  /\ UNCHANGED <<cver, q, buf, shadow, mode, wclosed, wdead, ackpre, file, snap, apc, img, pend, nadmin, nflush, dev>>

\* ---- writer goroutine ----------------------------------------------------
W_Recv ==
  /\ q # <<>> /\ ~wclosed
  /\ q' = Tail(q)
  /\ IF mode THEN shadow' = Append(shadow, Head(q)) /\ UNCHANGED buf
             ELSE buf' = Append(buf, Head(q)) /\ UNCHANGED shadow
  /\ UNCHANGED <<cpc, cver, memv, acked, mode, wclosed, wdead, ackpre, file, snap, apc, img, pre, pend, nadmin, nflush, dev>>

\* flushTicker / syncTicker
W_Tick ==
  /\ buf # <<>> /\ ~wclosed
  /\ file' = file \o buf /\ buf' = <<>>
  /\ UNCHANGED <<cpc, cver, memv, acked, q, shadow, mode, wclosed, wdead, ackpre, snap, apc, img, pre, pend, nadmin, nflush, dev>>

\* cmdFlush / cmdSync served (explicit Flush by a caller, KVDelete, engine tickers)
W_FlushQ(qq, rest) ==
  /\ ~wclosed /\ nflush < MaxFlush
  /\ nflush' = nflush + 1
  /\ q' = rest /\ shadow' = DrainedOf(qq).s
  /\ file' = file \o DrainedOf(qq).b /\ buf' = <<>>
  /\ UNCHANGED <<cpc, cver, memv, acked, mode, wclosed, wdead, ackpre, snap, apc, img, pre, pend, nadmin, dev>>

\* ---- admin: SaveSnapshot -------------------------------------------------
InFlight == \E c \in Clients : cpc[c] = "sent"

A_BeginQ(kind, qq, rest) ==          \* BeginSnapshotMode (cmdBeginSnapshot): drain, flush, enter snapshot mode
  /\ apc = "idle" /\ ~wclosed /\ ~mode /\ nadmin < MaxAdmin
  /\ (Barrier => ~InFlight)
  /\ nadmin' = nadmin + 1
  /\ q' = rest /\ file' = file \o DrainedOf(qq).b /\ buf' = <<>> /\ shadow' = <<>> /\ mode' = TRUE
  /\ apc' = kind \o ".begun"
  /\ dev' = IF InFlight /\ ~CaptureWaits THEN dev \cup {"gap"} ELSE dev
  /\ pre' = IF CaptureWaits THEN {c \in Clients : cpc[c] # "idle"} ELSE {}
  /\ UNCHANGED <<cpc, cver, memv, acked, wclosed, wdead, ackpre, snap, img, pend, nflush>>

A_Capture(kind) ==        \* DB.Snapshot / the capture steps of RewriteAOF read memory (KV store under its lock)
  /\ apc = kind \o ".begun"
  /\ pre = {}                 \* waitForEarlierWrites: every call that started before Begin has applied
  /\ img' = memv
  /\ apc' = kind \o ".captured"
  /\ UNCHANGED <<cpc, cver, memv, acked, q, buf, shadow, mode, wclosed, wdead, ackpre, file, snap, pre, pend, nadmin, nflush, dev>>

S_Rename ==               \* os.Rename(tmp, kdb)
  /\ apc = "snap.captured"
  /\ snap' = <<img>>
  /\ apc' = "snap.renamed"
  /\ UNCHANGED <<cpc, cver, memv, acked, q, buf, shadow, mode, wclosed, wdead, ackpre, file, img, pre, pend, nadmin, nflush, dev>>

S_TruncateQ(qq, rest) ==             \* cmdTruncate: drain (into the shadow buffer), flush, truncate the log
  /\ apc = "snap.renamed"
  /\ IF wclosed
     THEN apc' = "idle" /\ UNCHANGED <<q, shadow, buf, file>>      \* command refused: procedure aborts
     ELSE /\ q' = rest /\ shadow' = DrainedOf(qq).s /\ buf' = <<>> /\ file' = <<>>
          /\ apc' = "snap.truncated"
  /\ UNCHANGED <<cpc, cver, memv, acked, mode, wclosed, wdead, ackpre, snap, img, pre, pend, nadmin, nflush, dev>>

R_ReplaceQ(qq, rest) ==              \* cmdReplaceWith: drain, flush, swap in the compacted log (self-contained: RESET first)
  /\ apc = "rw.captured"
  /\ IF wclosed
     THEN apc' = "idle" /\ UNCHANGED <<q, shadow, buf, file>>
     ELSE /\ q' = rest /\ shadow' = DrainedOf(qq).s /\ buf' = <<>>
          /\ file' = <<Reset>> \o [i \in 1..Len(SetToSeq({c \in Clients : img[c] > 0})) |->
                                     LET c == SetToSeq({cc \in Clients : img[cc] > 0})[i] IN [c |-> c, v |-> img[c]]]
          /\ apc' = "rw.truncated"
  /\ UNCHANGED <<cpc, cver, memv, acked, mode, wclosed, wdead, ackpre, snap, img, pre, pend, nadmin, nflush, dev>>

A_EndQ(kind, qq, rest) ==            \* EndSnapshotModeAndReappend (cmdEndSnapshotReappend): drain, move the shadow writes back
                          \* into the write buffer in order, leave snapshot mode, flush -- one step of the writer goroutine
  /\ apc = kind \o ".truncated"
  /\ IF wclosed
     THEN UNCHANGED <<q, shadow, mode, buf, file>>
     ELSE /\ q' = rest /\ shadow' = <<>> /\ mode' = FALSE
          /\ file' = file \o DrainedOf(qq).b \o DrainedOf(qq).s /\ buf' = <<>>
  /\ apc' = "idle"
  /\ UNCHANGED <<cpc, cver, memv, acked, wclosed, wdead, ackpre, snap, img, pre, pend, nadmin, nflush, dev>>

\* SaveSnapshot fails after BeginSnapshotMode (its temp file cannot be created, DB.Snapshot fails): the deferred
\* cleanup leaves snapshot mode with EndSnapshotModeAndReappend -- the writes diverted to the shadow buffer were
\* acknowledged and go back into the (untouched) log
A_FailQ(qq, rest) ==
  /\ SnapFails /\ apc = "snap.begun"
  /\ pre = {}                 \* the temp file is created after waitForEarlierWrites
  /\ IF wclosed
     THEN UNCHANGED <<q, shadow, mode, buf, file>>
     ELSE /\ q' = rest /\ shadow' = <<>> /\ mode' = FALSE
          /\ file' = file \o DrainedOf(qq).b \o DrainedOf(qq).s /\ buf' = <<>>
  /\ apc' = "idle"
  /\ UNCHANGED <<cpc, cver, memv, acked, wclosed, wdead, ackpre, snap, img, pre, pend, nadmin, nflush, dev>>

\* (kept for the older protocol: EndSnapshotMode handing the writes back to the engine, which re-appended
\*  them one by one -- see known_findings.json FX-14; never enabled now because apc never ends in ".ended")
A_Reappend(kind) ==
  /\ apc = kind \o ".ended"
  /\ IF pend = <<>>
     THEN apc' = "idle" /\ UNCHANGED <<q, pend>>
     ELSE IF wclosed THEN apc' = "idle" /\ pend' = <<>> /\ UNCHANGED q
     ELSE q' = Append(q, Head(pend)) /\ pend' = Tail(pend) /\ UNCHANGED apc
  /\ UNCHANGED <<cpc, cver, memv, acked, buf, shadow, mode, wclosed, wdead, ackpre, file, snap, img, pre, nadmin, nflush, dev>>

\* ---- shutdown --------------------------------------------------------------
\* LazyAOFWriter.Close (cmdClose): drain, merge the shadow buffer, flush, sync, close
W_CloseQ(qq, rest) ==
  /\ ~wclosed
  /\ (CloseWaits => apc = "idle")
  /\ (SnapCloseWaits => apc \notin {"snap.begun", "snap.captured", "snap.renamed", "snap.truncated"})
  /\ wclosed' = TRUE
  /\ ackpre' = acked
  /\ file' = file \o DrainedOf(qq).b \o DrainedOf(qq).s
  /\ q' = rest /\ buf' = <<>> /\ shadow' = <<>> /\ mode' = FALSE
  /\ UNCHANGED <<cpc, cver, memv, acked, wdead, snap, apc, img, pre, pend, nadmin, nflush, dev>>

\* Engine.Close, after the journal is closed: wait for the calls that are between journal and apply (0257866), then
\* DB.Close.  From here on a capture sees no vector index at all.
E_CoreClose ==
  /\ wdead
  /\ \A c \in Clients : cpc[c] # "sent"
  /\ \E c \in Volatile : memv[c] # 0
  /\ memv' = [c \in Clients |-> IF c \in Volatile THEN 0 ELSE memv[c]]
  /\ UNCHANGED <<cpc, cver, acked, q, buf, shadow, mode, wclosed, wdead, ackpre, file, snap, apc, img, pre, pend, nadmin, nflush, dev>>

\* the run goroutine returns: closedCh is closed
W_Dead ==
  /\ wclosed /\ ~wdead
  /\ wdead' = TRUE
  /\ UNCHANGED <<cpc, cver, memv, acked, q, buf, shadow, mode, wclosed, ackpre, file, snap, apc, img, pre, pend, nadmin, nflush, dev>>

\* the commands as the model takes them: the whole queue is drained
W_Flush == W_FlushQ(q, <<>>)
A_Begin(kind) == A_BeginQ(kind, q, <<>>)
S_Truncate == S_TruncateQ(q, <<>>)
R_Replace == R_ReplaceQ(q, <<>>)
A_End(kind) == A_EndQ(kind, q, <<>>)
A_Fail == A_FailQ(q, <<>>)
W_Close == W_CloseQ(q, <<>>)

Next ==
  \/ \E c \in Clients : C_Start(c) \/ C_Enqueue(c) \/ C_Apply(c)
  \/ W_Recv \/ W_Tick \/ W_Flush \/ W_Close \/ W_Dead \/ E_CoreClose
  \/ A_Begin("snap") \/ A_Capture("snap") \/ S_Rename \/ S_Truncate \/ A_End("snap") \/ A_Reappend("snap") \/ A_Fail
  \/ A_Begin("rw") \/ A_Capture("rw") \/ R_Replace \/ A_End("rw") \/ A_Reappend("rw")

Spec == Init /\ [][Next]_vars

\* ---- properties ------------------------------------------------------------
\* everything still in flight, as Close would persist it
Pending == buf \o shadow \o q \o pend
\* C14: after a shutdown, a restart reads at least every acknowledged version.  The journal/apply gap
\* at Begin (a call journaled before Begin but applied after the capture) is the one named deviation.
Inv_NoAckedLoss ==
  (wclosed /\ apc = "idle")
     => (dev # {} \/ \A c \in Clients : Recover(snap, file)[c] >= ackpre[c])

\* the same without the exemption: holds in the faithful configuration (CaptureWaits) -- and must FAIL with
\* CaptureWaits = FALSE (the gap the repair 1e83c14 closed; the check runs that configuration as a canary)
Inv_NoAckedLossStrict ==
  (wclosed /\ apc = "idle") => \A c \in Clients : Recover(snap, file)[c] >= ackpre[c]

\* and without the restriction to writes acknowledged before the close command was served: once everything is
\* quiescent, EVERY acknowledged write is read back (holds with DropRace = FALSE; the canary run with TRUE must fail)
Inv_EveryAckedWrite ==
  (wclosed /\ apc = "idle" /\ \A c \in Clients : cpc[c] = "idle")
     => \A c \in Clients : Recover(snap, file)[c] >= acked[c]

\* at every instant (not only after Close): every acknowledged version is in the log, the snapshot or in flight
\* -- unless the gap deviation was exercised
Covered(c) == \/ acked[c] = 0
              \/ (wclosed /\ Recover(snap, file)[c] >= ackpre[c])      \* acknowledged while closing: not covered by C14
              \/ Recover(snap, file \o Pending)[c] >= acked[c]
              \/ (apc \in {"snap.captured"} /\ img[c] >= acked[c])
              \/ (apc \in {"rw.captured"} /\ img[c] >= acked[c])
Inv_Conservation == dev # {} \/ \A c \in Clients : Covered(c)

\* with the write barrier the deviation cannot occur
Inv_BarrierClosesGap == Barrier => "gap" \notin dev

\* Flush covers the writes acknowledged before it.  While a snapshot or compaction is in progress the
\* shadow buffer (and the writes handed back by EndSnapshotMode) cannot be flushed -- by design of the
\* snapshot mode -- so the guarantee is stated for Flush calls served while no such procedure runs.
Prop_FlushCovers ==
  [][ (nflush' = nflush + 1 /\ apc = "idle") => \A c \in Clients : (dev # {} \/ Recover(snap, file')[c] >= acked[c]) ]_vars

\* (not an invariant: a compacted log legitimately holds the image value followed by the older shadow
\*  writes that lead up to it; what matters is the value the whole replay ends with = Inv_Conservation)
FileOrdered ==
  \A i, j \in 1..Len(file) : (i < j /\ ~IsReset(file[i]) /\ file[i].c = file[j].c
                               /\ ~\E k \in i..j : IsReset(file[k])) => file[i].v <= file[j].v

Done == wdead /\ apc = "idle" /\ \A c \in Clients : cpc[c] = "idle"
=============================================================================
