#!/usr/bin/env python3
"""Runs the pinned suite of /repo with the verif tag OFF and compares with the stable-pass list of /root/.vp/BASELINE.json."""
import json, os, subprocess, sys
base = json.load(open("/root/.vp/BASELINE.json"))
want = set(base["stable_pass"])
env = dict(os.environ, GOFLAGS="-mod=mod", GOPROXY="off")
env.pop("GOSUMDB", None)
p = subprocess.run(["go", "test", "-json", "-vet=off", "-count=1", "-timeout", "25m", "./..."], cwd=os.environ.get("VERIF_REPO", "/repo"),
                   env=env, capture_output=True, text=True)
res = {}
for ln in p.stdout.splitlines():
    try:
        ev = json.loads(ln)
    except Exception:
        continue
    if ev.get("Test") and ev.get("Action") in ("pass", "fail", "skip"):
        res["%s::%s" % (ev["Package"], ev["Test"])] = ev["Action"]
missing = sorted(t for t in want if res.get(t) != "pass")
print("stable tests: %d, passing now: %d" % (len(want), len(want) - len(missing)))
for t in missing[:40]:
    print("  NOT PASSING:", t, res.get(t))
sys.exit(1 if missing else 0)
