#!/usr/bin/env python3
"""C02: a crash at any point recovers a state explained by the acknowledged history.
(1) TLC on spec/Crash.tla (Kektor.tla + process-death model): crash between calls with any flushed
    prefix of the log, inside SaveSnapshot / RewriteAOF between their phases, then reopen again;
    Inv_CrashAdmissible (every item's recovered value is one it held since its last durable write)
    and Inv_FixedPoint in every reachable state.
(2) fault enumeration on the real code, driven by the spec: for every pre-crash state TLC emits the
    history and, per crash point, the admissible projections; the replayer executes the history on a
    real engine, takes directory images at the hook points (after the journal write of the last call,
    between calls, at every phase boundary of SaveSnapshot and RewriteAOF), tears the last log frame
    at byte offsets, and for every image checks: Open succeeds, the projection is admissible, a second
    Open changes nothing, writing more and restarting loses nothing."""
import json, os, random, sys
sys.path.insert(0, os.path.dirname(os.path.abspath(__file__)))
import vlib, engine_checks as ec
from vlib import Check, make_cfg, run_tlc, Infra

PROP = "C02"
MC = """---- MODULE MC_Crash ----
EXTENDS Crash, MC_KektorDefs
====
"""


def defs():
    src = open(os.path.join(vlib.SPEC, "MC_Kektor.tla")).read()
    return src.replace("MODULE MC_Kektor", "MODULE MC_KektorDefs").replace("EXTENDS Kektor\n", "")


def tlc(chk, name, consts, spec, invs, timeout, workers=None, record=True):
    cfg = make_cfg(spec, consts, invs, [], constraint="BoundC", view="ViewC")
    r = run_tlc("MC_Crash", name + ".cfg", cfg_text=cfg, extra_files={"MC_Crash.tla": MC, "MC_KektorDefs.tla": defs()},
                timeout=timeout, workers=workers)
    if record:
        chk.add_tlc(name, r)
        if r.violated:
            chk.infra.append("TLC: %s violated in %s\n%s" % (r.violated, name, "\n".join(t.split("\n")[0] for t in r.trace)))
    return r


def judge(chk, consts, cases, res, profile=None):
    cmap = {c["id"]: c for c in cases}
    seen = set()
    for d in res.get("divergences", []):
        if (d["id"], d["point"], d["kind"]) in seen:
            continue        # one report per (case, crash point, kind): a torn frame is cut at many offsets
        seen.add((d["id"], d["point"], d["kind"]))
        c = cmap.get(d["id"], {})
        div = {"kind": d["kind"], "op": {"op": d["point"]}, "diff": (d.get("diff") or []) + [d.get("detail", "")]}
        beh = {"steps": [{"op": o} for o in c.get("ops", [])]}
        div["step"] = len(beh["steps"])
        kf = vlib.match_known(PROP, div, beh)
        if kf:
            chk.known.append((kf["id"], kf["what"]))
            continue
        chk.violation("%s at crash point %s after history %s\n%s\n%s" % (
            d["kind"], d["point"], json.dumps(c.get("ops")), d.get("detail", ""), "\n".join((d.get("diff") or [])[:10])),
            {"property": PROP, "checker": "crash", "profile": profile or ec.profile_for(consts), "case": c, "divergence": d})


def run(tier):
    chk = Check(PROP, tier, level="model_checking")
    rng = random.Random(vlib.seed())
    quick = tier == "quick"
    base = dict(ec.BASE, MaxOps=3, MaxFile=3)
    graph = dict(ec.GRAPH_Q, MaxOps=3, MaxFile=4)
    seeded = dict(ec.SEEDED, MaxOps=2 if quick else 3, MaxFile=7)
    invs = ["Inv_CrashAdmissible", "Inv_FixedPoint"]
    # (Crash.tla: a recovery is followed by further calls and further crashes -- action Resume)
    tlc(chk, "MC_Crash_base", base if quick else dict(base, MaxOps=4), "SpecC", invs, 1200 if quick else 3000)
    if not quick:
        tlc(chk, "MC_Crash_graph", graph, "SpecC", invs, 3000)
        tlc(chk, "MC_Crash_seeded", seeded, "SpecC", invs, 3000)
    plans = []
    MID_OPS = ("VDeleteIndex", "VCompress", "VImportCommit")
    for name, consts, n in (("base", dict(base, MaxOps=2 if quick else 3), 70 if quick else 1500),
                            ("graph", dict(graph, MaxOps=2 if quick else 3), 40 if quick else 1000),
                            # the key-value store alone, four calls deep: "set, snapshot, set again, delete" and its neighbours
                            ("kvonly", dict(ec.KVONLY, MaxOps=4, MaxFile=5), 80 if quick else 1500),
                            ("seeded", dict(seeded, MaxOps=2), 150 if quick else 800),
                            # the seed holds an edge that was linked, soft-unlinked and linked again: the old log replayed
                            # over a newer image (crash between snapshot rename and truncation) must change nothing
                            ("edge_history", dict(ec.SEEDED_G, MaxOps=1 if quick else 2), 30 if quick else 800),
                            # crash points INSIDE an index drop, a compression and an import commit (after a snapshot or not)
                            ("mid_base", dict(ec.SEEDED_BASE, MaxOps=2 if quick else 3, MaxRej=0), 40 if quick else 1500),
                            ("mid_import", dict(ec.IMPORT, MaxOps=2 if quick else 3, MaxRej=0), 30 if quick else 1500),
                            # a refused call that left a record in the log (duplicate VCREATE), followed by further writes
                            ("rej_then_write", dict(ec.BASE, Ids="<- c_Empty", Cfgs="<- c_CfgsB", Maints="<- c_Empty", ALs="<- c_Empty", Targets="<- c_Empty",
                                                   MaxOps=4, MaxRej=1, MaxFile=5), 40 if quick else 1500)):
        r = tlc(chk, "MC_Crash_corpus_" + name, consts, "SpecCorpusC", [], 1800, workers=4, record=False)
        chk.cov["tlc_runs"].append({"config": "MC_Crash_corpus_" + name, "distinct_states": r.distinct, "corpus_records": len(r.corpus), "wall_s": round(r.wall, 1)})
        # the model may place a flush anywhere; the harness does not force flushes, so per history keep the
        # record with the least durable log (the largest set of admissible outcomes)
        best = {}
        for x in r.corpus:
            if not x["ops"]:
                continue
            k = json.dumps(x["ops"], sort_keys=True)
            if k not in best or x["dur"] < best[k]["dur"]:
                best[k] = x
        # crash points INSIDE VDeleteIndex / VCompress / VImportCommit: admissible = what the state before the call
        # or the state after it may recover to
        for k, x in best.items():
            if x["ops"][-1].get("op") in ("VDeleteIndex", "VCompress", "VImportCommit") and x["ops"][-1].get("res") == "ok":
                pre = best.get(json.dumps(x["ops"][:-1], sort_keys=True))
                if pre:
                    x["mid"] = pre["between"] + x["between"] + [pre["early"], pre["snap_renamed"], pre["snap_done"]]
        # "snapshot, then compress" ends in the state "compress" alone reaches first, so it is in no first-found history:
        # built here from the two records that are (same final state; the state before the call is the snapshotted one)
        if name.startswith("mid_"):
            snap_op = {"op": "SaveSnapshot", "res": "ok"}
            for k, x in list(best.items()):
                last = x["ops"][-1]
                if last.get("op") == "VCompress" and last.get("res") == "ok" and x.get("mid"):
                    pre = best.get(json.dumps(x["ops"][:-1] + [snap_op], sort_keys=True))
                    if pre:
                        y = dict(x, ops=x["ops"][:-1] + [snap_op, last])
                        y["mid"] = pre["between"] + x["between"] + [pre["early"], pre["snap_renamed"], pre["snap_done"]]
                        best[json.dumps(y["ops"], sort_keys=True)] = y
        recs = list(best.values())
        if name == "rej_then_write":
            def rtw(ops):
                errs = [i for i, o in enumerate(ops) if o.get("res") == "err"]
                later = [o for o in ops[errs[0] + 1:] if o.get("res") == "ok"] if errs else []
                return len(later) >= 2 and ops[errs[0]].get("op") == "VCreate" and later[0].get("op") == "KVSet"
            recs = [x for x in recs if rtw(x["ops"])]
        if name.startswith("mid_"):
            recs = [x for x in recs if x["ops"][-1].get("op") in MID_OPS and x.get("mid")]
        # prefer states with something at stake: a non-empty log or a snapshot-worthy state
        recs.sort(key=lambda x: json.dumps(x["ops"], sort_keys=True))
        if len(recs) > n:
            # stratified by the kinds of call in the history (an inverse-relation link, a soft / hard unlink and a
            # delete count as kinds of their own): every combination the corpus holds is drawn from before any is
            # drawn from twice -- a uniform sample left rare combinations (inverse link + delete) to the seed
            def kinds(x):
                ks = set()
                for o in x["ops"]:
                    k = o.get("op", "?")
                    if k == "VLink" and o.get("inv") not in (None, "nil"):
                        k = "VLink+inv"
                    if k == "VUnlink" and o.get("hard") in (True, "TRUE"):
                        k = "VUnlink+hard"
                    if k in ("VDelete", "VDeleteCut", "VDeleteSnapCut") and any(p_.get("op") == "VLink" and o.get("id") in (p_.get("s"), p_.get("t")) for p_ in x["ops"]):
                        k += "@linked"
                    ks.add(k + ("!" if o.get("res") == "err" else ""))
                return tuple(sorted(ks))
            strata = {}
            for x in recs:
                strata.setdefault(kinds(x), []).append(x)
            for v in strata.values():
                rng.shuffle(v)
            order = sorted(strata)
            rng.shuffle(order)
            picked = []
            while len(picked) < n:
                for k in order:
                    if strata[k] and len(picked) < n:
                        picked.append(strata[k].pop())
            recs = picked
            chk.cov.setdefault("strata_per_plan", {})[name] = len(order)
        seedn = (1 + len(ec.profile_for(consts)["ids"]) + (4 if consts.get("SeedGraph") == "TRUE" else 0)) if consts.get("Seeded") == "TRUE" else 0
        cases = [dict(x, id="%s%d" % (name[0], i), flush_after=seedn) for i, x in enumerate(recs)]
        if seedn:
            cases = [c for c in cases if len(c["ops"]) > seedn]
        plans.append((consts, cases))
    binary = vlib.build_harness()
    total_imgs = 0
    points = {}
    for consts, cases in plans:
        # records larger than a VCREATE frame where the plan is about offsets of the repair (vector dimension 96)
        dim = 96 if cases and cases[0]["id"].startswith("r") else 3
        prof = ec.profile_for(consts, variant=vlib.seed() % 3, dim=dim)
        res = vlib.run_sharded(binary, "crash", prof, cases,
                               extra_args=[] if quick else ["-torn-all"])
        for e in res.get("errors", []):
            chk.infra.append("crash replay error: " + e)
        judge(chk, consts, cases, res, prof)
        total_imgs += res.get("images", 0)
        for k, v in (res.get("point_counts") or {}).items():
            points[k] = points.get(k, 0) + v
        chk.cov["evaluations"] += res.get("checks", 0)
        chk.cov["traces_validated_against_impl"] += res.get("cases", 0)
        chk.cov["torn_offsets"] = chk.cov.get("torn_offsets", 0) + res.get("torn_offsets", 0)
    chk.cov["crash_images"] = total_imgs
    chk.cov["crash_images_per_point"] = dict(sorted(points.items()))
    chk.cov["distinct_nontrivial"] = chk.cov["traces_validated_against_impl"]
    chk.cov["rule"] = ("one case per sampled reachable pre-crash state of Crash.tla (history + admissible outcome per crash point); each is executed on the "
                       "real engine and crash images are taken at: the journal write of the last call, between calls, every byte offset (thorough) / sampled offsets "
                       "(quick) of the last log frame, snap.tmp_written/renamed/truncated, rw.tmp_written/replaced, inside VDeleteIndex/VCompress/VImportCommit as last call, "
                       "and DURING the recovery of those images (replay.scanned, replay.applied)")
    chk.cov["samples"] = [c["ops"] for _, cs in plans for c in cs[:2]]
    chk.assumptions += ["process-death model: the image is a copy of the data directory as the OS sees it at the hook point (page cache survives, user-space buffers are lost)",
                        "a second crash during recovery is taken for every non-torn image and for every ninth torn offset, at the two recovery hooks only (after scan/truncation, after apply)",
                        "model constants as in C01"]
    return chk.finish()


def replay_file(path):
    rec = json.load(open(path))
    binary = vlib.build_harness()
    res = vlib.run_sharded(binary, "crash", rec["profile"], [rec["case"]], shards=1)
    print(json.dumps(res.get("divergences"), indent=1)[:6000])
    unknown = 0
    beh = {"steps": [{"op": o} for o in rec["case"].get("ops", [])]}
    for d in res.get("divergences") or []:
        div = {"kind": d["kind"], "op": {"op": d["point"]}, "diff": (d.get("diff") or []) + [d.get("detail", "")], "step": len(beh["steps"])}
        kf = vlib.match_known(PROP, div, beh)
        if kf:
            print("KNOWN-FINDING: property=%s %s (%s)" % (PROP, kf["what"][:200], kf["id"]))
        else:
            unknown += 1
    if unknown:
        print("VIOLATION property=%s replay=%s" % (PROP, path))
        return vlib.EXIT_VIOLATION
    if res.get("divergences"):
        return vlib.EXIT_OK
    print("replay: no divergence on the current tree")
    return vlib.EXIT_OK


if __name__ == "__main__":
    if len(sys.argv) > 2 and sys.argv[1] == "--replay":
        vlib.main_wrapper(lambda: replay_file(sys.argv[2]))
    vlib.main_wrapper(lambda: run(sys.argv[1] if len(sys.argv) > 1 else "quick"))
