#!/usr/bin/env python3
"""C03 - the log codec is lossless and corruption never fabricates or garbles commands.

1. TLC checks spec/Codec.tla:
     SpecRT   Parse(Format(cmd)) = cmd for every command over the symbol alphabet (Inv_RoundTrip);
     SpecDmg  for every log over the command alphabet and every damage (bit flip of a header field or
              payload symbol, overwritten / deleted range, inserted garbage, truncation, pairs of field
              damages) the transcription of replayAOF+resyncAOF applies a subsequence of the appended
              commands, ungarbled and in order, including every untouched frame, refuses only when the
              first byte is not the magic, terminates, stays below the allocation cap and is stable
              under a second start.
   Both emit every enumerated case through the CORPUS channel.
2. harness/cmd/vcodec refines the cases to real bytes (persistence.FormatCommand + AOFWriter) and runs
   them on ReadFrame/ParseCommand and on engine.Open; the state after Open must be the state of the
   surviving subsequence the spec computed, Open must not panic / hang / refuse a file that begins with
   the magic, must not allocate beyond what the in-cap length fields of the file explain (cap escaped:
   alloc_unbounded) nor far beyond what the file could justify (alloc_amplified), and a second start
   must see the same commands.
3. a virtual _test.go in pkg/engine checks float32SliceToHexString / parseVectorFromString bit for bit.
"""
import json, os, random, re, shutil, subprocess, sys, time
sys.path.insert(0, os.path.dirname(os.path.abspath(__file__)))
import vlib
from vlib import Check, make_cfg, run_tlc, Infra

PROP = "C03"

X, M, CR, LF, DL, ST, MI, ONE = 16, 10, 11, 12, 13, 14, 15, 1
ARGSYMS = "{%d,%d,%d,%d,%d,%d,%d,%d}" % (M, CR, LF, DL, ST, MI, ONE, X)

def E(i, t=0):
    """log entry code of spec/Codec.tla: command shape i instantiated with tag t"""
    return i + 16 * t


def ES(*pairs):
    return "{" + ",".join(str(E(*p)) for p in pairs) + "}"


BASE = {"MaxPayload": 500, "MaxArgsCap": 50, "LogAlpha": "{2}", "MaxLog": 1, "CutMode": '"fields"', "Doubles": "FALSE",
        "RTNameSyms": "{16}", "RTArgSyms": "{16}", "RTMaxLen": 1, "RTMaxArgs": 1, "RTEmit": "FALSE"}

DMG_INVS = ["Inv_Terminates", "Inv_Genuine", "Inv_Ungarbled", "Inv_Order", "Inv_Survive", "Inv_Refuse", "Inv_Alloc",
            "Inv_Stable", "Inv_CleanLog"]

# name -> (spec, constants); command shapes: 1 DEL, 2 SET, 3 SET magic value, 4 SET value=empty valid frame, 5 SET nil,
# 6 SET "", 7 SET "$-1\r\n", 8 VCREATE, 9 VADD nil meta, 10 VADD meta; equal tags = same key / id
TIERS = {
    "quick": {
        "rt": [("rt_len1_args3", dict(RTNameSyms="{16,1}", RTArgSyms=ARGSYMS, RTMaxLen=1, RTMaxArgs=3, RTEmit="TRUE")),
               ("rt_len2_args2", dict(RTNameSyms="{16}", RTArgSyms=ARGSYMS, RTMaxLen=2, RTMaxArgs=2, RTEmit="FALSE"))],
        "dmg": [("dmg_fields_log2", dict(LogAlpha=ES((2, 1), (3, 0), (8, 0), (9, 0)), MaxLog=2, CutMode='"fields"')),
                ("dmg_doubles_log3", dict(LogAlpha=ES((1, 0), (3, 0)), MaxLog=3, CutMode='"none"', Doubles="TRUE"))],
        "files": 2300, "rt_cases": 1500, "all_bits": False, "header_bits": 3, "payload_bits": 1,
        # boundary refinement: every offset of the window at the resync chunk size (1 case each), 6 sampled offsets elsewhere
        "bnd_cases_primary": 3, "bnd_sample": 6, "bnd_cases": 2,
        "vec_stride": 4099,
    },
    "thorough": {
        "rt": [("rt_len1_args3", dict(RTNameSyms="{16,1}", RTArgSyms=ARGSYMS, RTMaxLen=1, RTMaxArgs=3, RTEmit="TRUE")),
               ("rt_len2_args3", dict(RTNameSyms="{16}", RTArgSyms=ARGSYMS, RTMaxLen=2, RTMaxArgs=3, RTEmit="FALSE"))],
        "dmg": [("dmg_fields_log3", dict(LogAlpha=ES((2, 0), (2, 1), (3, 0), (5, 1)), MaxLog=3, CutMode='"fields"')),
                ("dmg_fields_shapes_log2", dict(LogAlpha=ES((1, 0), (2, 0), (3, 1), (4, 0), (5, 1), (6, 0), (7, 1), (8, 0), (9, 0), (10, 1)),
                                                MaxLog=2, CutMode='"fields"')),
                ("dmg_allcuts_log2", dict(LogAlpha=ES((1, 0), (3, 0), (5, 1)), MaxLog=2, CutMode='"all"')),
                ("dmg_fields_log4", dict(LogAlpha=ES((1, 0), (3, 0)), MaxLog=4, CutMode='"fields"')),
                ("dmg_doubles_log3", dict(LogAlpha=ES((2, 0), (3, 0), (8, 0), (9, 0)), MaxLog=3, CutMode='"none"', Doubles="TRUE"))],
        "files": 100000, "rt_cases": 20000, "all_bits": True, "header_bits": 32, "payload_bits": 2,
        "bnd_cases_primary": 24, "bnd_sample": None, "bnd_cases": 12,
        "vec_stride": 1,
    },
}

VIOLATION_KINDS = {"alloc_amplified", "roundtrip_mismatch", "writer_mismatch", "hang", "panic", "crash", "open_refused", "alloc_unbounded",
                   "fabricated_or_garbled", "lost_intact_command", "second_start_differs", "vector_codec"}
SPEC_KINDS = {"spec_mismatch", "format_mismatch"}


# ------------------------------------------------------------------------------------------ TLC

def tlc(chk, name, spec, consts, invs, timeout):
    c = dict(BASE)
    c.update(consts)
    r = run_tlc("Codec", name + ".cfg", cfg_text=make_cfg(spec, c, invs), timeout=timeout)
    chk.add_tlc(name, r)
    if r.violated or not r.ok:
        chk.infra.append("TLC: %s in %s - a design-level counterexample of the transcription; reproduce it on the code "
                         "(./check C03 --replay after building the case) or fix the spec:\n%s" % (
                             r.violated or "error", name, "\n".join(r.trace[-2:])[:2500]))
    return r


def field_of(rec, alpha):
    """stratum of a damage case: kind plus, for flips, the field that is hit"""
    out = []
    for d in rec["dmg"]:
        if d["k"] != "flip":
            out.append(d["k"])
            continue
        pos, a = 1, d["a"]
        f = "?"
        for e in rec["log"]:
            n = 4 + len(alpha[e]["payload"])
            if a < pos + n:
                off = a - pos
                f = ["magic", "opcode", "len", "crc"][off] if off < 4 else "payload"
                break
            pos += n
        out.append("flip-" + f)
    return "+".join(out)


def files_of(stratum, cfg):
    """expected number of concrete files of one abstract case"""
    n = 1
    for f in stratum.split("+"):
        if f in ("flip-magic", "flip-opcode"):
            n *= 8 if cfg["all_bits"] else min(8, cfg["header_bits"])
        elif f == "flip-crc":
            n *= 12 if cfg["all_bits"] else 2      # one of three abstract variants hits all 32 bits
        elif f == "flip-len":
            n *= 6 if cfg["all_bits"] else 2
        elif f == "flip-payload":
            n *= 1
    if "+" in stratum:
        n = min(n, 4)
    return n


def sample_cases(corpus, alpha, cfg, rng):
    strata = {}
    for rec in corpus:
        strata.setdefault(field_of(rec, alpha), []).append(rec)
    names = sorted(strata)
    for s in names:
        strata[s].sort(key=lambda r: json.dumps(r, sort_keys=True))
        rng.shuffle(strata[s])
    # 70% of the file budget goes to the single damages, 30% to the pairs; equal shares inside each group;
    # what a small stratum cannot use goes to the next ones
    chosen = []
    for group, share in ((lambda s: "+" not in s, 0.7), (lambda s: "+" in s, 0.3)):
        g = [s for s in names if group(s)]
        if not g:
            continue
        if len(g) == len(names):
            share = 1.0
        per = cfg["files"] * share / len(g)
        left = 0.0
        for s in sorted(g, key=lambda s: len(strata[s]) * files_of(s, cfg)):
            quota = per + left
            take = strata[s][:int(quota // files_of(s, cfg))]
            chosen += [(s, r) for r in take]
            left = quota - len(take) * files_of(s, cfg)
    return chosen, {s: len(strata[s]) for s in names}


# ------------------------------------------------------------------------------------------ boundary refinement

def code_constants():
    """Sizes of the read windows and buffers the CURRENT tree uses on the recovery path, read from its sources."""
    def grab(rel, pattern, default):
        try:
            m = re.search(pattern, open(os.path.join(vlib.REPO, rel)).read())
            return int(m.group(1).replace("_", "")) if m else default
        except OSError:
            return default
    c = {
        "resync_chunk": grab("pkg/engine/recovery.go", r"chunkSize\s*=\s*([0-9_]+)", None),
        "header_size": grab("pkg/persistence/frame.go", r"HeaderSize\s*=\s*([0-9_]+)", 10),
        "aof_write_buffer": grab("pkg/persistence/aof.go", r"DefaultAOFWriteBufferSize\s*=\s*([0-9_]+)", None),
        "bufio_reader": grab("pkg/engine/recovery.go", r"bufio\.NewReaderSize\([^,]+,\s*([0-9_]+)\)", None),
    }
    if c["bufio_reader"] is None:       # bufio.NewReader: the default size of the Go release in use
        try:
            goroot = subprocess.run(["go", "env", "GOROOT"], cwd=vlib.REPO, env=vlib.goenv(), capture_output=True, text=True).stdout.strip()
            m = re.search(r"defaultBufSize\s*=\s*(\d+)", open(os.path.join(goroot, "src/bufio/bufio.go")).read())
            c["bufio_reader"] = int(m.group(1)) if m else 4096
        except OSError:
            c["bufio_reader"] = 4096
    return c


def boundaries(consts):
    """primary = the resync read window (the scan starts one byte after the last good frame and reads windows of
    that size); the others: its double, the bufio size, the writer's buffer, and the fall-back sweep"""
    primary = consts["resync_chunk"] or 8192
    others = {2 * primary, consts["bufio_reader"], consts["aof_write_buffer"] or 65536, 4096, 8192, 16384, 65536} - {primary, None}
    return primary, sorted(b for b in others if 512 <= b <= 131072), max(12, consts["header_size"] + 2)


def _frame_at(rec, alpha, pos):
    """(1-based frame index, offset in the frame, abstract start of the frame) of abstract position pos"""
    at = 1
    for i, e in enumerate(rec["log"]):
        n = 4 + len(alpha[e]["payload"])
        if pos < at + n:
            return i + 1, pos - at, at
        at += n
    return len(rec["log"]) + 1, 0, at


def boundary_eligible(rec, alpha):
    """cheap filter (the harness decides): one damage after which some surviving frame is reached by a
    resynchronisation across a frame whose value can be sized (or across a long insertion), and a sizable,
    uncoupled frame at or after it lets the file continue"""
    if len(rec["dmg"]) != 1 or rec["out"] != "OK" or not rec["surv"]:
        return False
    log, surv, d = rec["log"], rec["surv"], rec["dmg"][0]
    if d["k"] == "trunc":
        return False
    f_lo, off, _ = _frame_at(rec, alpha, d["a"])
    if f_lo in surv and not (d["k"] == "ins" and off == 0):
        return False                      # the damaged frame is still applied: nothing to resynchronise across
    prev = max([s for s in surv if s < f_lo] + [0])
    later = [s for s in surv if s > prev]
    if not later:
        return False
    j = later[0]
    between = list(range(prev + 1, j))    # frame indices the scan has to skip
    sizable = lambda e: e % 16 in (2, 3)

    def knob_kept(i):                     # the sizable run of frame i is not (partly) inside a deleted range
        e = log[i - 1]
        if not sizable(e):
            return False
        if d["k"] != "del":
            return True
        start = 1 + sum(4 + len(alpha[x]["payload"]) for x in log[:i - 1])
        sym = (50 if e % 16 == 2 else 65) + e // 16
        p = start + 4 + alpha[e]["payload"].index(sym)
        return not (d["a"] <= p < d["b"])
    gap_ok = (d["k"] == "ins" and d["b"] == 5) or any(knob_kept(i) for i in between)
    tail_ok = any(sizable(log[k - 1]) and log[k - 1] not in [log[i - 1] for i in between] for k in range(j, len(log) + 1))
    return gap_ok and tail_ok


def boundary_cases(corpus, cfg, consts, rng):
    primary, others, win = boundaries(consts)
    pool = [r for r in corpus if boundary_eligible(r, BND_ALPHA[0])]
    pool.sort(key=lambda r: json.dumps(r, sort_keys=True))
    if not pool:
        return [], primary, others, win
    by_kind = {}
    for r in pool:
        by_kind.setdefault(field_of(r, BND_ALPHA[0]), []).append(r)
    kinds = sorted(by_kind)
    out = []

    def add(b, d, n):
        base = rng.randrange(len(kinds))
        for k in range(n):
            rec = rng.choice(by_kind[kinds[(base + k) % len(kinds)]])
            c = dict(rec)
            c.update(boundary=b, delta=d, variant=rng.choice([0, 1, 4, 5]), seed=rng.randrange(1 << 40))
            out.append(c)
    for d in range(-win, win + 1):
        add(primary, d, cfg["bnd_cases_primary"])
    for b in others:
        ds = list(range(-win, win + 1))
        if cfg["bnd_sample"]:
            ds = rng.sample(ds, cfg["bnd_sample"])
        for d in ds:
            add(b, d, cfg["bnd_cases"])
    return out, primary, others, win


BND_ALPHA = [None]


# ------------------------------------------------------------------------------------------ harness

def _limit_memory():
    """a shard may reserve at most 12 GB of address space: code that lost its allocation cap dies (and is
    reported as a crash on that file) instead of exhausting the machine"""
    import resource
    resource.setrlimit(resource.RLIMIT_AS, (12 << 30, 12 << 30))


def run_harness(binary, alpha_list, cases, opts, shards=None, timeout=3000):
    """Runs cases in short-lived processes. A process that dies (a panic in a goroutine spawned by the
    engine cannot be recovered) is attributed through its progress file and the rest of its chunk is re-run."""
    shards = shards or vlib.NCPU
    # data directories on tmpfs when there is one: engine.Open/Close fsync, thousands of times
    if not os.environ.get("VERIF_SCRATCH") and os.path.isdir("/dev/shm") and os.access("/dev/shm", os.W_OK):
        import tempfile
        d = tempfile.mkdtemp(prefix="verif-c03-", dir="/dev/shm")
    else:
        d = vlib.scratch("c03-")
    merged = {"divergences": [], "errors": [], "field_bits": {}, "kinds": {}, "boundary_hits": {}}
    try:
        per = max(1, min(250, (len(cases) + shards - 1) // shards))
        pending = [cases[i:i + per] for i in range(0, len(cases), per)]
        running, n = [], 0
        t0 = time.time()
        while pending or running:
            while pending and len(running) < shards:
                chunk = pending.pop(0)
                fin, fout = os.path.join(d, "in%d.json" % n), os.path.join(d, "out%d.json" % n)
                n += 1
                inp = dict(opts)
                inp["alpha"], inp["cases"] = alpha_list, chunk
                with open(fin, "w") as f:
                    json.dump(inp, f)
                env = dict(os.environ)
                env["TMPDIR"] = d
                p = subprocess.Popen([binary, "run", "-in", fin, "-out", fout], env=env, stdout=subprocess.PIPE,
                                     stderr=subprocess.PIPE, text=True, preexec_fn=_limit_memory)
                running.append((p, fout, chunk))
            still = []
            for p, fout, chunk in running:
                rc = p.poll()
                if rc is None:
                    still.append((p, fout, chunk))
                    continue
                so, se = p.communicate()
                res = None
                if os.path.exists(fout):
                    with open(fout) as f:
                        res = json.load(f)
                if rc != 0 or res is None:
                    cur = None
                    try:
                        cur = open(fout + ".progress").read().split("\n")
                    except OSError:
                        pass
                    if not cur or rc == 3:
                        raise Infra("vcodec failed rc=%s\n%s" % (rc, se[-3000:]))
                    bad = [c for c in chunk if c["id"] == cur[0]]
                    merged["divergences"].append({"id": cur[0], "kind": "crash", "sub": cur[1] if len(cur) > 1 else "",
                                                  "detail": "the process died while opening the file (rc=%s): %s" % (rc, se[-1500:]),
                                                  "case": bad[0] if bad else None})
                    rest = [c for c in chunk if c["id"] != cur[0]]
                    if rest:
                        pending.append(rest)
                    continue
                done = set(res.get("done") or [])
                rest = [c for c in chunk if c["id"] not in done]
                if rest and len(rest) < len(chunk):
                    pending.append(rest)          # the process stopped early (a hang): run the others elsewhere
                for k, v in res.items():
                    if k in ("divergences", "errors"):
                        merged[k] += v or []
                    elif k in ("field_bits", "kinds", "boundary_hits"):
                        for kk, vv in (v or {}).items():
                            merged[k][kk] = merged[k].get(kk, 0) + vv
                    elif k == "max_alloc_mb":
                        merged[k] = max(merged.get(k, 0), v)
                    elif isinstance(v, (int, float)):
                        merged[k] = merged.get(k, 0) + v
            running = still
            if time.time() - t0 > timeout:
                for p, _, _ in running:
                    p.kill()
                raise Infra("vcodec shards timed out")
            if running:
                time.sleep(0.02)
        return merged
    finally:
        shutil.rmtree(d, ignore_errors=True)


VEC_TEST = r'''
package engine

import (
	"math"
	"os"
	"runtime"
	"strconv"
	"strings"
	"sync"
	"sync/atomic"
	"testing"
)

// TestVerifC03VectorCodec: float32SliceToHexString / parseVectorFromString are bit exact on every
// float32 bit pattern visited (stride from the environment; 1 = all 2^32), the hex text is the
// documented one, and the legacy decimal text decodes to the same float32 (NaN: to a NaN).
func TestVerifC03VectorCodec(t *testing.T) {
	stride, _ := strconv.ParseUint(os.Getenv("VERIF_VEC_STRIDE"), 10, 64)
	if stride == 0 {
		stride = 4099
	}
	special := []uint32{0x7fc00000, 0x7fa00001, 0xffc00000, 0x7fffffff, 0xffffffff, 0x7f800000, 0xff800000, 0x80000000, 0,
		1, 0x807fffff, 0x00400000, 0x007fffff, 0x00800000, 0x7f7fffff, 0xff7fffff, 0x3f800000, 0xbf800000, 0x7f800001, 0xa5a5a5a5}
	check := func(bits []uint32) string {
		v := make([]float32, len(bits))
		for i, b := range bits {
			v[i] = math.Float32frombits(b)
		}
		s := float32SliceToHexString(v)
		if len(s) != 1+8*len(bits) || s[0] != 'h' {
			return "hex text has the wrong shape: " + s
		}
		for i, b := range bits {
			want := strconv.FormatUint(uint64(b), 16)
			want = strings.Repeat("0", 8-len(want)) + want
			if s[1+8*i:9+8*i] != want {
				return "hex text of " + want + " is " + s[1+8*i:9+8*i]
			}
		}
		back, err := parseVectorFromString(s)
		if err != nil {
			return "parseVectorFromString(" + s + "): " + err.Error()
		}
		if len(back) != len(bits) {
			return "length changed"
		}
		for i, b := range bits {
			if math.Float32bits(back[i]) != b {
				return "bits " + strconv.FormatUint(uint64(b), 16) + " read back as " + strconv.FormatUint(uint64(math.Float32bits(back[i])), 16)
			}
		}
		return ""
	}
	if msg := check(special); msg != "" {
		t.Fatal(msg)
	}
	// legacy decimal text
	for _, b := range special {
		f := math.Float32frombits(b)
		for _, txt := range []string{strconv.FormatFloat(float64(f), 'f', -1, 32), strconv.FormatFloat(float64(f), 'g', -1, 32),
			strconv.FormatFloat(float64(f), 'f', -1, 64)} {
			back, err := parseVectorFromString(txt + " 1 " + txt)
			if err != nil || len(back) != 3 {
				t.Fatalf("legacy %q: %v %v", txt, back, err)
			}
			for _, g := range []float32{back[0], back[2]} {
				if f != f {
					if g == g {
						t.Fatalf("legacy %q: NaN read back as %v", txt, g)
					}
				} else if math.Float32bits(g) != b {
					t.Fatalf("legacy %q: %08x read back as %08x", txt, b, math.Float32bits(g))
				}
			}
		}
	}
	workers := runtime.NumCPU()
	var wg sync.WaitGroup
	var bad atomic.Value
	var count atomic.Uint64
	const block = 1 << 12
	total := (uint64(1) << 32) / stride
	for w := 0; w < workers; w++ {
		wg.Add(1)
		go func(w int) {
			defer wg.Done()
			buf := make([]uint32, 0, block)
			for k := uint64(w) * block; k < total; k += uint64(workers) * block {
				buf = buf[:0]
				for j := k; j < k+block && j < total; j++ {
					buf = append(buf, uint32(j*stride))
				}
				if msg := check(buf); msg != "" {
					bad.Store(msg)
					return
				}
				count.Add(uint64(len(buf)))
			}
		}(w)
	}
	wg.Wait()
	if m := bad.Load(); m != nil {
		t.Fatal(m)
	}
	// legacy text of a sample of all patterns
	n := 0
	for j := uint64(0); j < 1<<32; j += 65521 * 7 {
		b := uint32(j)
		f := math.Float32frombits(b)
		back, err := parseVectorFromString(strconv.FormatFloat(float64(f), 'f', -1, 32))
		if err != nil || len(back) != 1 || (f == f && math.Float32bits(back[0]) != b) || (f != f && back[0] == back[0]) {
			t.Fatalf("legacy text of %08x read back as %v (%v)", b, back, err)
		}
		n++
	}
	os.WriteFile(os.Getenv("VERIF_VEC_OUT"), []byte("VERIF-VEC patterns="+strconv.FormatUint(count.Load()+uint64(len(special)), 10)+" legacy="+strconv.Itoa(n+len(special)*3)+"\n"), 0o644)
}
'''


def vector_codec(chk, stride):
    d = vlib.scratch("c03vec-")
    try:
        res = os.path.join(d, "vec.txt")
        rc, out = vlib.go_test_overlay("pkg/engine", {"verif_c03_vec_test.go": VEC_TEST}, run="TestVerifC03VectorCodec",
                                       timeout=1500, extra_env={"VERIF_VEC_STRIDE": str(stride), "VERIF_VEC_OUT": res})
        if os.path.exists(res):
            out += open(res).read()
    finally:
        shutil.rmtree(d, ignore_errors=True)
    m = re.search(r"VERIF-VEC patterns=(\d+) legacy=(\d+)", out)
    if rc == 0 and m:
        return int(m.group(1)), int(m.group(2)), None
    if "--- FAIL: TestVerifC03VectorCodec" in out:
        return 0, 0, out[-1500:]
    raise Infra("vector codec test did not run:\n" + out[-3000:])


# ------------------------------------------------------------------------------------------ verdict

def judge(chk, merged, alpha_list, opts):
    reported = 0
    for div in merged.get("divergences", []):
        kind = div["kind"]
        text = "%s: %s\n%s\n%s" % (kind, div.get("sub", ""), div.get("detail", ""), "\n".join(div.get("diff") or []))
        if kind in SPEC_KINDS:
            chk.infra.append("the code deviates from the spec without violating the property (fix the transcription): %s\ncase %s" % (
                text[:1200], json.dumps(div.get("case"))[:800]))
            continue
        if kind not in VIOLATION_KINDS:
            chk.infra.append("unknown divergence kind " + text[:500])
            continue
        kf = vlib.match_known(PROP, {"kind": kind, "op": None, "diff": div.get("diff"), "detail": text})
        if kf:
            chk.known.append((kf["id"], kf["what"]))
            continue
        reported += 1
        if reported <= 25:
            case = div.get("case") or {}
            where = ""
            if case.get("boundary"):
                where = " first frame to resynchronise to placed %d%+d bytes after the last good frame" % (case["boundary"], case["delta"])
            chk.violation("%s\ncase: log=%s damage=%s spec-survivors=%s variant=%s seed=%s%s" % (
                text[:2500], case.get("log"), json.dumps(case.get("dmg")), case.get("surv"), case.get("variant"), case.get("seed"), where),
                {"property": PROP, "checker": "vcodec", "alpha": alpha_list, "case": case, "opts": opts, "divergence": div})
    for e in merged.get("errors", []):
        chk.infra.append("harness error: " + e[:1500])


def dbg(msg, t0=[time.time()]):
    if os.environ.get("VERIF_DEBUG"):
        print("[%6.1fs] %s" % (time.time() - t0[0], msg), file=sys.stderr)


def run(tier):
    if tier not in TIERS:
        raise Infra("unknown tier " + tier)
    cfg = TIERS[tier]
    chk = Check(PROP, tier)
    rng = random.Random(vlib.seed())
    ok, out = vlib.sany("Codec")
    if not ok:
        raise Infra("spec/Codec.tla does not pass SANY:\n" + out)
    dbg("sany done")
    binary = vlib.build_harness(cmd="vcodec")
    dbg("harness built")
    quick = tier == "quick"

    # 1a. round trip
    rt_corpus, rt_states = [], 0
    for name, consts in cfg["rt"]:
        r = tlc(chk, name, "SpecRT", consts, ["Inv_RoundTrip"], 600 if quick else 2400)
        rt_states += r.distinct
        dbg("%s: %d states %.1fs" % (name, r.distinct, r.wall))
        rt_corpus += [c for c in r.corpus if c.get("kind") == "rt"]
    # 1b. damage
    corpus, alpha = [], {}
    for name, consts in cfg["dmg"]:
        r = tlc(chk, name, "SpecDmg", consts, DMG_INVS, 600 if quick else 2400)
        for a in r.printed.get("ALPHA", []):
            alpha[a["i"]] = a
        got = [c for c in r.corpus if c.get("kind") == "dmg"]
        if not got:
            raise Infra("damage run %s produced no cases:\n%s" % (name, r.raw_tail))
        corpus += got
        dbg("%s: %d states %d cases %.1fs" % (name, r.distinct, len(got), r.wall))
    alpha_list = [alpha[i] for i in sorted(alpha)]
    if chk.infra:
        return chk.finish()

    # 2. refinement to real bytes
    chosen, strata = sample_cases(corpus, alpha, cfg, rng)
    cases = []
    for n, (s, rec) in enumerate(chosen):
        c = dict(rec)
        c.update(id="d%d" % n, variant=rng.randrange(8), seed=rng.randrange(1 << 40))
        cases.append(c)
    consts = code_constants()
    BND_ALPHA[0] = alpha
    bcases, b_primary, b_others, b_win = boundary_cases(corpus, cfg, consts, rng)
    for n, c in enumerate(bcases):
        c["id"] = "b%d" % n
    cases += bcases
    rt_corpus.sort(key=lambda r: json.dumps(r, sort_keys=True))
    if len(rt_corpus) > cfg["rt_cases"]:
        rt_corpus = rng.sample(rt_corpus, cfg["rt_cases"])
    for n, rec in enumerate(rt_corpus):
        c = dict(rec)
        c.update(id="r%d" % n, variant=n % 6, seed=rng.randrange(1 << 40))
        cases.append(c)
    rng.shuffle(cases)
    opts = {"all_bits": cfg["all_bits"], "header_bits": cfg["header_bits"], "payload_bits": cfg["payload_bits"], "timeout_s": 120}
    merged = run_harness(binary, alpha_list, cases, opts)
    judge(chk, merged, alpha_list, opts)
    dbg("harness: %d files, %d opens" % (merged.get("files", 0), merged.get("opens", 0)))

    # 3. vector text codec (unexported functions: virtual test file)
    pats, legacy, fail = vector_codec(chk, cfg["vec_stride"])
    if fail:
        kf = vlib.match_known(PROP, {"kind": "vector_codec", "detail": fail})
        if kf:
            chk.known.append((kf["id"], kf["what"]))
        else:
            chk.violation("float32SliceToHexString/parseVectorFromString are not bit exact:\n" + fail,
                          {"property": PROP, "checker": "vector_codec", "stride": cfg["vec_stride"]})

    dbg("vector codec: %d patterns" % pats)
    files = merged.get("files", 0)
    hdr_bits = sorted(merged.get("field_bits", {}))
    chk.cov["traces_validated_against_impl"] = files + merged.get("rt_checks", 0)
    chk.cov["evaluations"] = merged.get("opens", 0) + merged.get("rt_checks", 0) + merged.get("frame_checks", 0) + pats
    chk.cov["distinct_nontrivial"] = len(chosen)
    chk.cov["exhaustive"] = False
    chk.cov["rule"] = (
        "TLC enumerates every (log, damage) pair of the configurations listed in tlc_runs (%d abstract cases in %d strata "
        "= damage kind x field) and every command of the round-trip universe (%d states); the binding takes an equal share "
        "of the file budget from every stratum (seeded), refines each case to real bytes (8 value styles, hex and legacy "
        "vectors) and, for header fields, to %s of the field. %d abstract damage cases -> %d damaged files opened by "
        "engine.Open (%d opens incl. the second start), %d refused, %d repaired by truncation, %d degenerate refinements "
        "skipped, %d length classes without a realising bit; %d/80 header bits hit; largest allocation of one Open %d MB, "
        "%d opens allocated more than the file could justify; "
        "%d FormatCommand/ParseCommand and %d WriteFrame/ReadFrame round trips; %d float32 bit patterns through the hex "
        "vector codec, %d legacy decimal texts" % (
            len(corpus), len(strata), rt_states, "every bit" if cfg["all_bits"] else "%d sampled bits" % cfg["header_bits"],
            len(chosen), files, merged.get("opens", 0), merged.get("refused", 0), merged.get("truncated", 0),
            merged.get("degenerate", 0), merged.get("empty_class", 0), len(hdr_bits), merged.get("max_alloc_mb", 0),
            merged.get("amplified", 0),
            merged.get("rt_checks", 0), merged.get("frame_checks", 0), pats, legacy))
    hits = merged.get("boundary_hits", {})
    want_primary = {"%d:%+d" % (b_primary, d) for d in range(-b_win, b_win + 1)}
    chk.cov["rule"] += (
        "; boundary refinement: constants read from the tree %s -> first frame after the damage placed at every offset "
        "%d..%d after the end of the last good frame (file continuing two more windows), %d/%d offsets executed at the "
        "resync window, plus boundaries %s (%s): %d boundary files, %d requests not realisable for their case" % (
            json.dumps(consts), b_primary - b_win, b_primary + b_win, len(want_primary & set(hits)), len(want_primary),
            b_others, "every offset" if not cfg["bnd_sample"] else "%d sampled offsets each" % cfg["bnd_sample"],
            sum(hits.values()), merged.get("boundary_na", 0)))
    chk.cov["boundary_hits"] = hits
    if len(want_primary & set(hits)) < len(want_primary):
        chk.infra.append("vacuous boundary coverage: offsets %s around the resync window %d were not executed" % (
            sorted(want_primary - set(hits)), b_primary))
    chk.cov["strata"] = strata
    chk.cov["files_by_damage_kind"] = merged.get("kinds", {})
    chk.cov["samples"] = [{"log": c["log"], "dmg": c["dmg"], "survivors": c["surv"], "out": c["out"]} for c in cases if c["kind"] == "dmg"][:4] + \
                         [{"rt": {"name": c["name"], "args": c["args"]}} for c in cases if c["kind"] == "rt"][:2]
    if files < cfg["files"] * 0.5:
        chk.infra.append("vacuous coverage: only %d damaged files were executed (target %d)" % (files, cfg["files"]))
    chk.assumptions += [
        "CRC32 is modelled as a perfect hash: a checksum field matches only the payload it was computed for (or the empty "
        "payload with a zero field); equivalently, argument values and garbage do not contain a complete well-formed frame",
        "byte strings are abstracted to the symbol classes {0xA5, CR, LF, '$', '*', '-', digit, zero, other}; arbitrary "
        "binary contents beyond the classes are exercised only by the concrete refinement (seeded random bytes)",
        "command names are the engine's upper-case ASCII constants (ParseCommand upper-cases the name)",
        "the multi-byte length and checksum fields are one symbol each in the spec; their individual bits are covered by the refinement",
        "resyncAOF's read window and the bufio buffers are not modelled; the refinement places the first intact frame "
        "after the damage at every offset of a window around those sizes (read from the tree) and uses values larger than them",
        "logs hold KV SET/DEL and VCREATE/VADD commands only (the GLINK/GUNLINK skip paths of replayAOF are outside)",
        "vectors stored in a real index are finite (incl. -0, denormals, max); NaN/Inf patterns are checked at codec level",
    ]
    return chk.finish()


def replay_file(path):
    rec = json.load(open(path))
    if rec.get("checker") == "vector_codec":
        chk = Check(PROP, "replay")
        _, _, fail = vector_codec(chk, rec.get("stride", 4099))
        print(fail or "replay: vector codec is bit exact on the current tree")
        if fail:
            print("VIOLATION property=%s replay=%s" % (PROP, path))
            return vlib.EXIT_VIOLATION
        return vlib.EXIT_OK
    binary = vlib.build_harness(cmd="vcodec")
    opts = dict(rec.get("opts") or {})
    opts["verbose"] = False
    merged = run_harness(binary, rec["alpha"], [rec["case"]], opts, shards=1)
    divs = [{k: v for k, v in d.items() if k != "case"} for d in merged.get("divergences", [])]
    print(json.dumps({"case": rec["case"], "files": merged.get("files"), "divergences": divs}, indent=1))
    if any(d["kind"] in VIOLATION_KINDS for d in divs):
        print("VIOLATION property=%s replay=%s" % (PROP, path))
        return vlib.EXIT_VIOLATION
    print("replay: no divergence on the current tree")
    return vlib.EXIT_OK


if __name__ == "__main__":
    if len(sys.argv) > 2 and sys.argv[1] == "--replay":
        vlib.main_wrapper(lambda: replay_file(sys.argv[2]))
    tier = sys.argv[1] if len(sys.argv) > 1 else os.environ.get("VERIF_TIER", "quick")
    vlib.main_wrapper(lambda: run(tier))
