#!/usr/bin/env python3
"""C07 -- see tools/search_checks.py (spec/Search.tla, SearchMath.tla, SearchLayer.tla, Trace_Search.tla; harness/cmd/vsearch)."""
import os, sys
sys.path.insert(0, os.path.dirname(os.path.abspath(__file__)))
import search_checks
search_checks.main("C07")
