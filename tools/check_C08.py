#!/usr/bin/env python3
"""C08 -- Metadata filters select exactly the matching live vectors.

spec/Filter.tla (+ MC_Filter.tla):
  * the MEANING: truth[id] (current metadata of the live ids, kept by the meaning of add / merge /
    delete) and the declarative Eval(meta, filter) of the documented grammar;
  * the IMPLEMENTATION SHAPE of pkg/core/core.go: node array + tombstones + id maps, primary
    metadata map, inverted index, numeric B-tree, maintained by transcriptions of AddMetadata,
    AddMetadataUnlocked, removeOldIndexEntries, DeleteMetadata; snapshot image + aggregated
    command log, LoadFromSnapshot, replayAOF, RewriteAOF, Compress, Vacuum;
    FromIndexes = evaluateBooleanFilter / FindIDsByFilter / VFilter;
  * Inv_IndexAgrees (C08) and structural invariants, checked by TLC over every history of the
    bound (exhaustive mode) and over seeded long histories (scripted mode); the CORPUS channel
    prints, for every reachable state, the history that reached it and the result set required
    for every filter of the basis (12 single clauses, all AND pairs, all OR pairs, seeded larger
    expressions), plus what the pinned code is PREDICTED to answer where its AddMetadataUnlocked
    (no list case) makes it deviate.
harness/cmd/vfilter replays every history on a real engine and, after every step, sends every
filter of the basis -- rendered with seeded spacing / keyword case / quoting / clause order -- to
Engine.VFilter (set equality) and Engine.VSearch (subset).
"""
import json, os, random, sys, time
from concurrent.futures import ThreadPoolExecutor
sys.path.insert(0, os.path.dirname(os.path.abspath(__file__)))
# engine lifetimes are dominated by file creation / fsync: replay on a memory file system when there is one
if "VERIF_SCRATCH" not in os.environ and os.path.isdir("/dev/shm") and os.access("/dev/shm", os.W_OK):
    os.environ["VERIF_SCRATCH"] = "/dev/shm/verif-c08-%d" % os.getpid()
import vlib
from vlib import Check, make_cfg, run_tlc, Infra

PROP = "C08"
INVS = ["Inv_IndexAgrees", "Inv_Primary", "Inv_IndexIsImageOfPrimary"]
ALL_INVS = INVS + ["Inv_TablesAreDefinitions", "Inv_TablesCompose", "Inv_RestartAgrees"]
IDS = {"<- c_Ids2": ["a", "b"], "<- c_Ids3": ["a", "b", "c"]}


def consts(ids="<- c_Ids2", add="<- c_Add_K8", set_="<- c_Set_K8", basis="<- c_Basis1", steps="<- c_StepsAll",
           max_ops=4, max_ctr=4, pairs=True, extra="{}", all_histories=False):
    return {"IdSeq": ids, "MKeys": "<- c_Keys", "AddMetas": add, "SetMetas": set_, "Clauses": basis, "Extra": extra,
            "Pairs": "TRUE" if pairs else "FALSE", "Steps": steps, "MaxOps": max_ops, "MaxCtr": max_ctr, "Script": "<- c_NoScript",
            "AllHistories": "TRUE" if all_histories else "FALSE"}


def extra_filters(rng, n, nc=12):
    """Seeded larger expressions: 2..3 OR blocks of 1..3 AND clauses (set of sets of clause numbers)."""
    out = set()
    while len(out) < n:
        blocks = set()
        for _ in range(rng.choice([2, 2, 3])):
            blocks.add(frozenset(rng.sample(range(1, nc + 1), rng.choice([1, 2, 2, 3]))))
        f = frozenset(blocks)
        if len(f) >= 2 and sum(len(b) for b in f) >= 4:
            out.add(f)
    return "{" + ", ".join("{" + ", ".join("{" + ", ".join(str(c) for c in sorted(b)) + "}" for b in sorted(f, key=sorted)) + "}"
                           for f in sorted(out, key=lambda f: sorted(map(sorted, f)))) + "}"


# ---------------------------------------------------------------------------- seeded long histories (scripted mode)

VALS = [("str", "s"), ("str", "t"), ("num", 1), ("num", 2), ("bool", True), ("bool", False), ("list", ["s"]), ("list", ["s", "t"]),
        ("list", ["t"]), ("list", []), ("str", "1"), ("str", "1.0"), ("str", "2"), ("num", 1), ("num", 2)]


def tla_value(v):
    if v is None:
        return "Absent"
    t, x = v
    if t == "str":
        return 'Str("%s")' % x
    if t == "num":
        return "Num(%d)" % x
    if t == "bool":
        return "Bool(%s)" % ("TRUE" if x else "FALSE")
    return "List(<<%s>>)" % ", ".join('"%s"' % e for e in x)


def tla_meta(m):
    return "[k |-> %s, j |-> %s]" % (tla_value(m.get("k")), tla_value(m.get("j")))


def gen_walks(rng, n, length, ids):
    """Histories the engine accepts: adds of ids that are not live, merges / deletes of live ids, at most
    one compression, state transfers anywhere.  Biased towards what the property is about: overwrites with
    the same / another type, deletes and re-adds, updates after a transfer, transfers after updates."""
    walks = []
    for _ in range(n):
        live, prec32, w = set(), True, []
        keys_used = rng.choice([["k"], ["k", "j"], ["k", "j"]])

        def meta(nonempty):
            while True:
                m = {}
                for k in keys_used:
                    if rng.random() < 0.75:
                        m[k] = rng.choice(VALS)
                if m or not nonempty:
                    return m

        while len(w) < length:
            u = rng.random()
            dead = [i for i in ids if i not in live]
            if (u < 0.22 or not live) and dead:
                i = rng.choice(dead)
                w.append(("Add", i, meta(False)))
                live.add(i)
            elif u < 0.52 and live:
                w.append(("Set", rng.choice(sorted(live)), meta(True)))
            elif u < 0.64 and live:
                i = rng.choice(sorted(live))
                w.append(("Del", i, {}))
                live.discard(i)
            elif u < 0.69:
                w.append(("Vacuum", "", {}))
            elif u < 0.77:
                w.append(("Snap", "", {}))
            elif u < 0.90:
                w.append(("Reopen", "", {}))
            elif u < 0.95:
                w.append(("Rewrite", "", {}))
            elif prec32 and live:
                w.append(("Compress", "", {}))
                prec32 = False
        walks.append(w)
    return walks


def script_module(walks):
    rows = []
    for w in walks:
        rows.append("  << " + ",\n     ".join('[op |-> "%s", id |-> "%s", m |-> %s]' % (op, i, tla_meta(m)) for op, i, m in w) + " >>")
    return ("----------------------------- MODULE MC_Filter_script ------------------------------\n"
            "(* generated by tools/check_C08.py: seeded histories followed by Filter.tla in scripted mode *)\n"
            "EXTENDS MC_Filter\n"
            "c_Script == <<\n" + ",\n".join(rows) + "\n>>\n"
            "=============================================================================\n")


def json_value(v):
    if v is None:
        return {"t": "absent", "s": "", "n": 0, "l": []}
    t, x = v
    if t == "str":
        return {"t": "str", "s": x, "n": 0, "l": []}
    if t == "num":
        return {"t": "num", "s": "", "n": x, "l": []}
    if t == "bool":
        return {"t": "bool", "s": "true" if x else "false", "n": 0, "l": []}
    return {"t": "list", "s": "", "n": 0, "l": list(x)}


def json_op(o):
    op, i, m = o
    if op in ("Add", "Set"):
        return {"op": op, "id": i, "m": {"k": json_value(m.get("k")), "j": json_value(m.get("j"))}}
    if op == "Del":
        return {"op": op, "id": i}
    return {"op": op}


# ---------------------------------------------------------------------------- refinement

def harness_profile(seed, ids, basis):
    """Refinement of the abstract universe, varied with the seed."""
    rng = random.Random(seed * 7919 + 17)
    keys = rng.choice([{"k": "k", "j": "j"}, {"k": "category", "j": "year"}, {"k": "_archived", "j": "memory_layer"},
                       {"k": "Kind", "j": "k2"}])
    strs = rng.choice([{"s": "s", "t": "t"}, {"s": "red", "t": "blue"}, {"s": "new york", "t": "são paulo"},
                       {"s": "a<=b", "t": "x>y=z!"}, {"s": "Alpha", "t": "alpha"}])
    mul, addn = rng.choice([(1, 0), (1.5, 0), (100, 0), (1, -2), (0.25, 10), (1000000, 0)])
    metric, target = rng.choice([("euclidean", "float16"), ("cosine", "int8"), ("euclidean", "float16")])
    return {"ids": ids, "keys": keys, "strs": strs, "num_mul": mul, "num_add": addn, "native": False, "metric": metric,
            "target": target, "bare": True, "seed": seed, "search": True, "max_div": 6,
            "clauses": basis["clauses"], "filters": basis["filters"], "numstr": basis.get("numstr") or {}}


# ---------------------------------------------------------------------------- TLC

CHUNK = 250     # scripted histories per TLC run (a module with thousands of histories is slow to load)


def tlc_corpus(job, chunk=None):
    """One TLC run: model-check the invariants and collect the corpus.  chunk = (first, last) selects a
    slice of the job's scripted histories (numbered from first + 1 in the merged corpus)."""
    c = job["consts"]
    module, extra_files, name = "MC_Filter", None, job["name"]
    if job.get("walks"):
        lo, hi = chunk or (0, len(job["walks"]))
        module, extra_files = "MC_Filter_script", {"MC_Filter_script.tla": script_module(job["walks"][lo:hi])}
        c = dict(c, Script="<- c_Script")
        name = "%s_%d" % (name, lo // CHUNK)
    cfg = make_cfg("SpecCorpus", c, job.get("invs", INVS), [], view="View")
    r = run_tlc(module, name + ".cfg", cfg_text=cfg, workers=job.get("workers"), timeout=job.get("timeout", 1500), extra_files=extra_files)
    if job.get("walks"):
        for rec in r.corpus:
            rec["w"] += lo
    return r


def submit(pool, job):
    if job.get("walks"):
        n = len(job["walks"])
        return [pool.submit(tlc_corpus, job, (lo, min(n, lo + CHUNK))) for lo in range(0, n, CHUNK)]
    return [pool.submit(tlc_corpus, job)]


def collect(futs):
    """Merge the TLC runs of one job (chunks of scripted histories) into one result."""
    rs = [f.result() for f in futs]
    r = rs[0]
    for x in rs[1:]:
        r.corpus += x.corpus
        x.corpus = []
        r.distinct += x.distinct
        r.generated += x.generated
        r.depth = max(r.depth, x.depth)
        r.wall = max(r.wall, x.wall)
        r.ok = r.ok and x.ok
        r.violated = r.violated or x.violated
        r.error = r.error or x.error
        if x.violated and not r.trace:
            r.trace = x.trace
    if len(rs) > 1:
        r.cmd += " (+ %d more runs on chunks of %d scripted histories)" % (len(rs) - 1, CHUNK)
    return r


def behaviours_of(corpus, walks=None):
    """Exhaustive mode: prefix tree of the recorded histories; its leaves are replayed and every recorded
    prefix is judged exactly once (in the first leaf, in sorted order, that runs through it).
    Scripted mode: one behaviour per history, every step judged."""
    out = []
    if walks is not None:
        by = {}
        for rec in corpus:
            by[(rec["w"], rec["n"])] = rec
        for wi, w in enumerate(walks, 1):
            steps = []
            for n, o in enumerate(w, 1):
                rec = by.get((wi, n))
                if rec is None:
                    raise Infra("scripted history %d: TLC stopped at operation %d (%s): the generator produced a call the specification does not enable" % (wi, n, o))
                steps.append({"op": json_op(o), "exp": rec["exp"], "pin": rec["pin"] or []})
            out.append({"id": "w%d" % wi, "steps": steps})
        return out, len(by), sum(len(b["steps"]) for b in out)
    table = {}
    for rec in corpus:
        table[json.dumps(rec["ops"], sort_keys=True)] = rec
    prefixes = set()
    for rec in table.values():
        ops = rec["ops"]
        for i in range(1, len(ops)):
            prefixes.add(json.dumps(ops[:i], sort_keys=True))
    leaves = sorted((k for k, rec in table.items() if k not in prefixes and rec["ops"]))
    judged = set()
    for n, key in enumerate(leaves):
        ops = table[key]["ops"]
        steps = []
        for i in range(len(ops)):
            k = json.dumps(ops[: i + 1], sort_keys=True)
            rec = table.get(k)
            if rec is not None and k not in judged:
                judged.add(k)
                steps.append({"op": ops[i], "exp": rec["exp"], "pin": rec["pin"] or []})
            else:
                steps.append({"op": ops[i], "exp": None, "pin": []})
        out.append({"id": "h%d" % n, "steps": steps})
    return out, len(table), len(judged)


def provenance(ops):
    """How the volatile state after the last operation was obtained: live, or the latest state transfer
    (snapshot restore | log replay | rewritten-log replay | compress)."""
    prov, snap, rew = "live", False, False
    for o in ops:
        n = o["op"]
        if n == "Snap":
            snap, rew = True, False
        elif n == "Rewrite":
            rew = True
        elif n == "Compress":
            prov, snap, rew = "compress", True, False
        elif n == "Reopen":
            prov = "rewrite" if rew else ("snapshot" if snap else "replay")
    return prov


TOTALS = ["behaviours", "steps", "states_judged", "filter_evals", "search_evals", "search_equal", "nontrivial", "nonempty", "unjudged", "div_total", "div_pinned"]


def replay(chk, behaviours, prof, totals, label):
    binary = vlib.build_harness(cmd="vfilter")
    t0 = time.time()
    res = vlib.run_sharded(binary, "filter", prof, behaviours, shards=vlib.NCPU + vlib.NCPU // 2, timeout=3000)
    for e in res.get("errors", []):
        chk.infra.append("replay error (%s): %s" % (label, e))
    for k in TOTALS:
        totals[k] = totals.get(k, 0) + int(res.get(k, 0))
    totals.setdefault("replay_wall_s", {})[label] = round(time.time() - t0, 1)
    if res.get("behaviours", 0) != len(behaviours):
        chk.infra.append("replay %s: %d of %d histories executed" % (label, res.get("behaviours", 0), len(behaviours)))
    for s in res.get("samples", [])[:2]:
        if len(chk.cov["samples"]) < 6:
            chk.cov["samples"].append(s)
    return res.get("divergences", [])


def show_value(v):
    return {"absent": None, "str": v["s"], "bool": v["s"] == "true", "num": v["n"], "list": v["l"]}[v["t"]]


def show_op(o):
    if o["op"] in ("Add", "Set"):
        m = {k: show_value(v) for k, v in o["m"].items() if v["t"] != "absent"}
        return "%s(%s, %s)" % (o["op"], o["id"], json.dumps(m, sort_keys=True))
    if o["op"] == "Del":
        return "Del(%s)" % o["id"]
    return o["op"]


def classify(div):
    """Name the divergence.  An answer that is exactly what the specification predicts for the pinned
    AddMetadataUnlocked (no list case) is the named deviation unlocked_no_list."""
    kind = div["kind"]
    if div.get("has_pin"):
        got, pinned = set(div.get("got") or []), set(div.get("pin") or [])
        if kind == "filter_mismatch" and got == pinned:
            return "pinned:unlocked_no_list"
        if kind == "search_not_subset" and got <= pinned:
            return "pinned:unlocked_no_list"
    return kind


def describe(div, beh, prof):
    ops = [s["op"] for s in beh["steps"][: div["step"] + 1]] if beh else []
    return "%s on %s after %s\n  filter %r (basis #%s)\n  expected %s got %s%s\n  %s\n  refinement: keys %s strings %s numbers n*%s%+g, %s" % (
        div["kind"], div.get("iface", "?"), " ; ".join(show_op(o) for o in ops), div.get("filter"), div.get("fi"),
        div.get("exp"), div.get("got"), (" (the pinned transcription predicts %s)" % div.get("pin")) if div.get("has_pin") else "",
        div.get("detail") or " ".join(div.get("diff") or []), prof["keys"], prof["strs"], prof["num_mul"], prof["num_add"],
        "Go-native types" if prof.get("native") else "JSON types")


def judge(chk, divs, behaviours, prof, c, label):
    by_id = {b["id"]: b for b in behaviours}
    divs = sorted(divs, key=lambda d: (d["step"], d["id"], d.get("fi", 0)))
    seen = set()
    for div in divs:
        beh = by_id.get(div["id"])
        div = dict(div, kind=classify(div))
        ops = [s["op"] for s in beh["steps"][: div["step"] + 1]] if beh else []
        prov = provenance(ops)
        div["diff"] = (div.get("diff") or []) + ["state obtained: " + prov]
        kf = vlib.match_known(PROP, div, beh)
        if kf:
            hits = chk.cov.setdefault("known_finding_divergences", {})
            if kf["id"] not in hits:
                chk.known.append((kf["id"], kf["what"]))
                chk.cov.setdefault("known_finding_example", {})[kf["id"]] = describe(div, beh, prof)
            hits[kf["id"]] = hits.get(kf["id"], 0) + 1
            continue
        key = (div["kind"], div.get("iface"), prov)
        if key in seen:
            continue
        seen.add(key)
        what = describe(div, beh, prof)
        if len(chk.violations) < 20:
            # self-contained replay: the history cut after the diverging step, with the specification's expected sets
            cut = {"id": beh["id"], "steps": beh["steps"][: div["step"] + 1]} if beh else None
            chk.violation(what, {"property": PROP, "checker": "vfilter", "profile": prof, "behaviour": cut, "divergence": div,
                                 "constants": {k: str(v) for k, v in c.items()}, "config": label})
        else:
            chk.violations.append((what, "(not written: more than 20 violations)"))


def bind(chk, job, r, totals, families):
    name, c = job["name"], job["consts"]
    chk.add_tlc(name, r)
    if r.violated:
        raise Infra("TLC: %s violated in %s -- the transcription of the DOCUMENTED behaviour disagrees with the declarative semantics "
                    "(specification error to fix):\n%s" % (r.violated, name, "\n".join(r.trace[-2:])[:3000]))
    if not r.ok:
        raise Infra("TLC failed on %s:\n%s" % (name, (r.error or r.raw_tail)[:3000]))
    if not r.corpus or "BASIS" not in r.printed:
        raise Infra("corpus run %s produced no histories:\n%s" % (name, r.raw_tail))
    basis = r.printed["BASIS"][0]
    walks = job.get("walks")
    behaviours, nstates, njudged = behaviours_of(r.corpus, walks)
    r.corpus = []
    nall = len(behaviours)
    if job.get("sample") and len(behaviours) > job["sample"]:
        behaviours = random.Random(job["seed"]).sample(behaviours, job["sample"])
    provs, pinned_states = {}, 0
    for b in behaviours:
        ops = []
        for s in b["steps"]:
            ops.append(s["op"])
            if s["exp"] is not None:
                p = provenance(ops)
                provs[p] = provs.get(p, 0) + 1
                pinned_states += 1 if s["pin"] else 0
    prof = harness_profile(job["seed"], IDS[c["IdSeq"]], basis)
    divs = replay(chk, behaviours, prof, totals, name)
    judge(chk, divs, behaviours, prof, c, name)
    families.append({"config": name, "mode": "scripted seeded histories" if walks else "exhaustive", "states_recorded": nstates,
                     "histories": nall, "histories_replayed": len(behaviours),
                     "states_judged_in_replay": sum(1 for b in behaviours for s in b["steps"] if s["exp"] is not None),
                     "filters_in_basis": len(basis["filters"]), "states_by_provenance": provs,
                     "states_where_pinned_code_is_predicted_to_deviate": pinned_states,
                     "refinement": {k: prof[k] for k in ("keys", "strs", "num_mul", "num_add", "metric", "target")},
                     "bound": ("%d seeded histories of %d operations over ids %s, values of every type on both keys" % (len(walks), len(walks[0]), c["IdSeq"][3:])) if walks else
                              "ids %s, metas %s / merges %s, clauses %s, steps %s, %s of <= %s operations" % (
                                  c["IdSeq"][3:], c["AddMetas"][3:], c["SetMetas"][3:], c["Clauses"][3:], c["Steps"][3:],
                                  "EVERY history" if c["AllHistories"] == "TRUE" else "one history per reachable (state, length)", c["MaxOps"])})


def deviation_probe(chk, c):
    """TLC on the pinned transcription: Inv_PinnedAgrees must be violated (the specification finds the
    defect of AddMetadataUnlocked on its own); recorded as evidence, decided on the code by the binding."""
    cfg = make_cfg("Spec", c, ["Inv_PinnedAgrees"], [], view="View")
    r = run_tlc("MC_Filter", "MC_Filter_pinned.cfg", cfg_text=cfg, workers=2, timeout=600)
    return r


def run(tier):
    chk = Check(PROP, tier)
    seed = vlib.seed()
    rng = random.Random(seed)
    quick = tier == "quick"
    totals, families = {}, []
    ids3 = IDS["<- c_Ids3"]
    if quick:
        jobs = [
            {"name": "MC_Filter_q_types", "consts": consts(add="<- c_Add_K6", set_="<- c_Set_K6", max_ops=3, extra=extra_filters(rng, 12), all_histories=True), "seed": seed},
            {"name": "MC_Filter_q_3ids", "consts": consts(ids="<- c_Ids3", add="<- c_Add_K3", set_="<- c_Set_K3", max_ops=3, extra=extra_filters(rng, 12)), "seed": seed + 100},
            {"name": "MC_Filter_q_2keys", "consts": consts(add="<- c_Add_KJ32", set_="<- c_Set_KJ32", basis="<- c_Basis2", max_ops=3, extra=extra_filters(rng, 12)), "seed": seed + 200},
            # numeric-looking strings next to the numbers they read as: every history (overwrites "2" <-> 2, "1.0" <-> "1" <-> 1)
            {"name": "MC_Filter_q_numstr", "consts": consts(add="<- c_Add_KN", set_="<- c_Set_KN", basis="<- c_Basis3", steps="<- c_StepsRestart", max_ops=3,
                                                             extra=extra_filters(rng, 12), all_histories=True), "seed": seed + 250},
            {"name": "MC_Filter_q_walks", "consts": consts(ids="<- c_Ids3", max_ctr=99, extra=extra_filters(rng, 12)), "seed": seed + 300,
             "walks": gen_walks(rng, 200, 16, ids3)},
            {"name": "MC_Filter_q_walks2", "consts": consts(ids="<- c_Ids3", basis="<- c_Basis2", max_ctr=99, extra=extra_filters(rng, 12)), "seed": seed + 400,
             "walks": gen_walks(rng, 100, 16, ids3)},
        ]
        workers, tmo = 4, 600
    else:
        jobs = [
            {"name": "MC_Filter_t_types", "consts": consts(add="<- c_Add_K6", set_="<- c_Set_K6", max_ops=4, extra=extra_filters(rng, 24), all_histories=True), "seed": seed},
            {"name": "MC_Filter_t_types9", "consts": consts(add="<- c_Add_K9", set_="<- c_Set_K9", max_ops=4, extra=extra_filters(rng, 24)), "seed": seed + 50},
            {"name": "MC_Filter_t_3ids", "consts": consts(ids="<- c_Ids3", add="<- c_Add_K3", set_="<- c_Set_K3", max_ops=5, max_ctr=5, extra=extra_filters(rng, 24)), "seed": seed + 100},
            # every state is model-checked; a seeded sample of its histories is replayed (the other families are replayed in full)
            {"name": "MC_Filter_t_2keys", "consts": consts(add="<- c_Add_KJ43", set_="<- c_Set_KJ43", basis="<- c_Basis2", max_ops=4, extra=extra_filters(rng, 24)), "seed": seed + 200,
             "sample": 120000},
            {"name": "MC_Filter_t_numstr", "consts": consts(add="<- c_Add_KN", set_="<- c_Set_KN", basis="<- c_Basis3", max_ops=4, extra=extra_filters(rng, 24)), "seed": seed + 250},
            {"name": "MC_Filter_t_numstr3", "consts": consts(add="<- c_Add_KN", set_="<- c_Set_KN", basis="<- c_Basis3", steps="<- c_StepsRestart", max_ops=3,
                                                              extra=extra_filters(rng, 24), all_histories=True), "seed": seed + 260},
            {"name": "MC_Filter_t_walks", "consts": consts(ids="<- c_Ids3", max_ctr=99, extra=extra_filters(rng, 24)), "seed": seed + 300,
             "walks": gen_walks(rng, 2000, 20, ids3)},
            {"name": "MC_Filter_t_walks2", "consts": consts(ids="<- c_Ids3", basis="<- c_Basis2", max_ctr=99, extra=extra_filters(rng, 24)), "seed": seed + 400,
             "walks": gen_walks(rng, 1000, 20, ids3)},
        ]
        workers, tmo = 5, 3000
    for j in jobs:
        j.setdefault("workers", workers)
        j.setdefault("timeout", tmo)
    # the literal definitions (Expected, FromIndexes) against the tabulated form, restart agreement: small configuration
    small = {"name": "MC_Filter_defs", "consts": consts(add="<- c_Add_K8", set_="<- c_Set_K8", max_ops=3, extra=extra_filters(rng, 6), pairs=not quick),
             "invs": ALL_INVS, "workers": workers, "timeout": tmo}

    pool = ThreadPoolExecutor(max_workers=5)
    futs = [(j, submit(pool, j)) for j in jobs]
    fut_small = pool.submit(tlc_corpus, small)
    fut_dev = pool.submit(deviation_probe, chk, consts(add="<- c_Add_KL", set_="<- c_Set_KL", max_ops=3, pairs=False))
    try:
        pending = list(futs)            # bind every job as soon as its TLC runs are done (replays overlap the longer TLC runs)
        while pending:
            ready = [x for x in pending if all(f.done() for f in x[1])]
            if not ready:
                time.sleep(0.2)
                continue
            for job, fs in ready:
                pending.remove((job, fs))
                bind(chk, job, collect(fs), totals, families)
        families.sort(key=lambda f: [j["name"] for j in jobs].index(f["config"]))
        r = fut_small.result()
        chk.add_tlc("MC_Filter_defs", r)
        if r.violated:
            raise Infra("TLC: %s violated in MC_Filter_defs (specification error):\n%s" % (r.violated, "\n".join(r.trace[-2:])[:3000]))
        r = fut_dev.result()
        chk.cov["tlc_runs"].append({"config": "MC_Filter_pinned (the pinned AddMetadataUnlocked: counterexample expected)", "distinct_states": r.distinct,
                                    "states_generated": r.generated, "violated": r.violated, "counterexample_length": len(r.trace), "wall_s": round(r.wall, 1)})
        if r.violated != "Inv_PinnedAgrees":
            chk.infra.append("the pinned transcription (AddMetadataUnlocked without the list case) was expected to violate Inv_PinnedAgrees: %s" % (r.error or r.raw_tail)[:800])
    finally:
        pool.shutdown(wait=True, cancel_futures=True)

    chk.cov["traces_validated_against_impl"] = totals.get("behaviours", 0)
    chk.cov["evaluations"] = totals.get("filter_evals", 0) + totals.get("search_evals", 0)
    chk.cov["distinct_nontrivial"] = totals.get("nontrivial", 0)
    chk.cov["exhaustive"] = all(f["histories_replayed"] == f["histories"] for f in families)
    chk.cov["binding"] = totals
    chk.cov["families"] = families
    for key, least in (("behaviours", 100), ("states_judged", 500), ("filter_evals", 50000), ("search_evals", 50000), ("nontrivial", 5000), ("search_equal", 5000)):
        if totals.get(key, 0) < least:
            chk.infra.append("vacuous coverage: %s = %s" % (key, totals.get(key, 0)))
    provs = {}
    for f in families:
        for k, v in f["states_by_provenance"].items():
            provs[k] = provs.get(k, 0) + v
    for p in ("live", "snapshot", "replay", "rewrite", "compress"):
        if provs.get(p, 0) < 20:
            chk.infra.append("vacuous coverage: only %d judged states obtained through %s" % (provs.get(p, 0), p))
    chk.cov["states_by_provenance"] = provs
    chk.cov["rule"] = (
        "exhaustive configurations: TLC enumerates the histories of the bound (EVERY history in the *_types family, one history per distinct (state, length) in the "
        "others) and checks Inv_IndexAgrees + structural invariants on every state; scripted configurations: seeded long histories (adds, merges with same/other type, deletes, re-adds, vacuum, snapshot, rewrite, reopen, compress) "
        "are followed by TLC operation by operation under the same invariants. Every recorded state is reached on a real engine by replaying its history and judged once: "
        "every filter of the basis (12 single clauses, 66 AND pairs, 66 OR pairs, seeded 2-3 block expressions) is rendered with seeded spacing / keyword case / "
        "quoting / clause order and sent to VFilter (set equality with the specification) and VSearch (subset). "
        + "; ".join("%s: %d states, %d of %d histories replayed, %d filters" % (f["config"], f["states_recorded"], f["histories_replayed"], f["histories"], f["filters_in_basis"]) for f in families))
    chk.assumptions += [
        "metadata values are drawn from {\"s\",\"t\", 1, 2, true, false, [\"s\"], [\"s\",\"t\"], [\"t\"], [], the numeric-looking strings \"1\", \"1.0\", \"2\", absent} over two keys "
        "(refined by the harness to other strings / numbers / field names, order preserving; a numeric-looking string is refined to the text of the number it reads as); "
        "strings that look like booleans, list elements that are not plain strings, nested maps and JSON null are outside the universe (ambiguous or undocumented)",
        "the documentation does not say whether a quoted numeric text equals a number, nor whether a bare number equals a string that reads the same: a filter holding such a "
        "(clause, live value) pair is not judged in that state (counted as unjudged); range operators are judged always (they select numbers only); numeric clauses are "
        "written bare, numeric-looking text literals quoted",
        "values reach the engine with the Go types a JSON client produces (string, float64, bool, []any); Go-native ints / []string handed to the embedded API are not covered",
        "filters are OR of ANDs of clauses key op literal with op in = != < <= > >=; range operators are only issued with numeric literals; CONTAINS(), "
        "parentheses and literals containing quotes or the words AND / OR are outside the grammar covered",
        "the index is small, so hnsw.AddBatch degenerates to Add (internal ids start at 1) and Compress rebuilds through Add; one index, "
        "no auto-links, no memory layer, no text language (the BM25 side is C09)",
        "replayAOF applies the aggregated entries in Go map order; ids are independent, the specification applies them in a fixed order",
        "VSearch is only required to return a subset of the filter's set (k = 16 > index size; how many of them it returns is C07's concern); "
        "the number of searches returning exactly the set is recorded (search_equal)",
        "primary state (which ids are live, their metadata) after restart is C01's concern: here it is a sanity invariant of the model (Inv_Primary)",
    ]
    return chk.finish()


def replay_file(path):
    rec = json.load(open(path))
    prof, beh = rec["profile"], rec["behaviour"]
    binary = vlib.build_harness(cmd="vfilter")
    prof = dict(prof, max_div=50)
    res = vlib.run_sharded(binary, "filter", prof, [beh], shards=1)
    divs = [dict(d, kind=classify(d)) for d in res.get("divergences", [])]
    print(json.dumps({"history": [show_op(s["op"]) for s in beh["steps"]], "filter_evals": res.get("filter_evals"),
                      "search_evals": res.get("search_evals"), "divergences": divs[:50]}, indent=1))
    if res.get("errors"):
        raise Infra("replay errors: %s" % res["errors"])
    if divs:
        print("VIOLATION property=%s replay=%s" % (PROP, path))
        return vlib.EXIT_VIOLATION
    print("replay: no divergence on the current tree")
    return vlib.EXIT_OK


def cleanup():
    d = os.environ.get("VERIF_SCRATCH", "")
    if d.startswith("/dev/shm/verif-c08-"):
        import shutil
        shutil.rmtree(d, ignore_errors=True)


def main():
    import atexit
    atexit.register(cleanup)
    if len(sys.argv) > 2 and sys.argv[1] == "--replay":
        vlib.main_wrapper(lambda: replay_file(sys.argv[2]))
    tier = sys.argv[1] if len(sys.argv) > 1 else os.environ.get("VERIF_TIER", "quick")
    vlib.main_wrapper(lambda: run(tier))


if __name__ == "__main__":
    main()
