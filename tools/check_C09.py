#!/usr/bin/env python3
"""C09 -- Text and hybrid ranking follow the BM25 and fusion formulas on current data.

spec/TextIdx.tla (+ MC_TextIdx.tla, Trace_TextIdx.tla):
  * documents are bags over abstract terms 1..4 (tf 0..2) in one text field; the abstract corpus
    `cur` lives beside an implementation-shaped text index `m` (postings term -> {<<internal id, tf>>},
    N, DocLengths, TotalDocLength, metadata map, id maps) that is maintained INCREMENTALLY by
    transcriptions of AddMetadata / removeOldIndexEntries / DeleteMetadata and REBUILT by
    transcriptions of LoadFromSnapshot, of the log replay (aggregate + apply) and of DB.Compress;
  * Inv_StatsFresh (+ Inv_IdMap, Inv_Candidates, Inv_RestartFresh): after ANY history the
    incrementally maintained statistics are the from-scratch ones of the current corpus;
  * Candidates(q), the exact integer vector order on the lattice, and the fusion rules as order
    constraints (TopK / TextOnlyOK / VectorOnlyOK / TextFirstOK);
  * CORPUS channel: every history of the bound (and random walks), with the specification's
    integers (tf, df, N, len, total), the candidate set of all 15 term subsets and the vector
    order of every query vector after every step.
harness/cmd/vtext replays every history on a real engine (english / italian analyser, terms bound
at run time to words the analyser maps to distinct single tokens) and compares
DB.FindIDsByTextSearch (set, BM25 scores within 1e-9, order) and VSearch / VSearchGraph
(alpha 0, 1/2, 1 and another interior weight, text-only, CONTAINS form, allow-list, every weight also with small k) after every step.
A sample of the judged searches goes back to TLC (Trace_TextIdx.tla), which evaluates the TLA+
order predicates themselves and must reach the harness's verdicts.
"""
import json, os, random, shutil, sys, time
from concurrent.futures import ThreadPoolExecutor
sys.path.insert(0, os.path.dirname(os.path.abspath(__file__)))
import vlib
from vlib import Check, make_cfg, run_tlc, Infra

PROP = "C09"
NT = 4
INVS = ["Inv_IdMap", "Inv_StatsFresh", "Inv_Candidates", "Inv_RestartFresh"]
GEOMS = [("<- c_PosA", "<- c_QA"), ("<- c_PosB", "<- c_QB"), ("<- c_PosC", "<- c_QC")]
BASE = {"DocSeq": "<- c_Docs3", "NT": NT, "Bags": "{1, 4, 5}", "AddVals": "<- c_AddNone", "MaxOps": 3, "MaxCtr": 99, "MaxLog": 99,
        "Maint": "<- c_MaintAll", "Pos": "<- c_PosA", "QVecs": "<- c_QA"}


# ---------------------------------------------------------------------------- bags

def code(tfs):
    return sum(tf * 3 ** i for i, tf in enumerate(tfs))


def tfs_of(c):
    return [(c // 3 ** i) % 3 for i in range(NT)]


def blen(c):
    return sum(tfs_of(c))


ALL_BAGS = [c for c in range(1, 3 ** NT) if blen(c) <= 4]


def menu(rng, n, with_empty=False):
    """n bags that share terms (document frequencies > 1 are reachable), differ in length and repeat a term."""
    k = n - (1 if with_empty else 0)
    for _ in range(1000):
        m = rng.sample(ALL_BAGS, k)
        terms = [set(i for i, tf in enumerate(tfs_of(c)) if tf) for c in m]
        shared = k < 2 or any(terms[i] & terms[j] for i in range(k) for j in range(i + 1, k))
        varied = k < 2 or len({blen(c) for c in m}) >= 2
        if shared and varied and any(2 in tfs_of(c) for c in m):
            return sorted(m + ([0] if with_empty else []))
    raise Infra("no bag menu found")


def lit(s):
    return "{" + ", ".join(str(x) for x in sorted(s)) + "}"


# ---------------------------------------------------------------------------- harness build

def build_vtext():
    """harness/cmd/vtext against the current working tree of /repo (or $VERIF_REPO: vlib builds through -modfile then)."""
    return vlib.build_harness(cmd="vtext")


# ---------------------------------------------------------------------------- TLC runs

def tlc_corpus(chk, name, consts, simulate=None, depth=None, timeout=900, workers=None, invs=INVS, walk_seed=None):
    cfg = make_cfg("SpecCorpus", consts, invs, [])
    r = run_tlc("MC_TextIdx", name + ".cfg", cfg_text=cfg, workers=(1 if simulate else workers), timeout=timeout,
                simulate=simulate, depth=depth, seed_=(walk_seed or vlib.seed()) if simulate else None)
    if simulate:
        chk.cov["tlc_runs"].append({"config": name, "mode": "simulate", "walks": simulate, "depth": depth, "corpus_records": len(r.corpus),
                                    "wall_s": round(r.wall, 1), "ok": r.error is None, "invariants": invs})
        if r.error is not None:
            chk.infra.append("TLC reported an error on %s: %s" % (name, r.error[:1500]))
    else:
        chk.add_tlc(name, r)
    return r


def tlc_cover(chk, name, consts, timeout=1500):
    """State-cover mode: the history is not part of the state identity, so every reachable
    (corpus, index, disk) state of the bound is checked against the invariants, whatever the length of the history."""
    cfg = make_cfg("Spec", consts, INVS, [], constraint="Bound", view="View")
    r = run_tlc("MC_TextIdx", name + ".cfg", cfg_text=cfg, timeout=timeout)
    chk.add_tlc(name, r)
    return r


def tlc_canary(chk, consts):
    """Sensitivity canary: the named deviation 'late fusion without the vector term of a candidate outside the k nearest' must be
    distinguishable from the formula within the bound -- TLC has to find a state/query/k refuting Canary_LateFusionIsFormula."""
    cfg = make_cfg("Spec", dict(consts, MaxOps=3), ["Canary_LateFusionIsFormula"], [])
    r = run_tlc("MC_TextIdx", "MC_TextIdx_canary.cfg", cfg_text=cfg, workers=2, timeout=600)
    chk.cov["tlc_runs"].append({"config": "MC_TextIdx_canary", "expected": "violation of Canary_LateFusionIsFormula", "violated": r.violated,
                                "states_generated": r.generated, "wall_s": round(r.wall, 1)})
    if r.violated != "Canary_LateFusionIsFormula":
        chk.infra.append("canary did not fire: TLC found no state in which a candidate lies outside the k nearest (%s)" % (r.error or r.raw_tail)[:800])
    return r


def geometry(r):
    g = r.printed.get("GEOM")
    if not g:
        raise Infra("TLC run printed no GEOM record:\n" + r.raw_tail)
    return g[0]


def profile(geom, lang, seed, add_via="VAdd", decor=False, light=False, m=8, traces=40):
    return {"lang": lang, "seed": seed, "m": m, "efc": 100, "add_via": add_via, "decor": decor, "docs": geom["docs"], "nt": NT,
            "pos": geom["pos"], "qvecs": geom["qvecs"], "d2": geom["d2"], "out": seed % len(geom["docs"]), "light": light,
            "max_div": 3, "traces": traces}


TOTALS = ["behaviours", "steps", "checked_steps", "text_queries", "text_nontrivial", "scores", "scores_multi", "fusion_searches",
          "alpha0", "alpha1", "alpha_half", "fused_scores", "text_only", "contains_form", "filtered", "small_k", "ties",
          "alpha_interior_small_k", "alpha_interior_small_k_candidate_outside_k_nearest",
          "after_overwrite_or_delete", "div_total"]


def replay(chk, label, behs, prof, totals, traces):
    binary = build_vtext()
    t0 = time.time()
    res = vlib.run_sharded(binary, "text", prof, behs, timeout=3000)
    for e in res.get("errors", []):
        chk.infra.append("replay error (%s): %s" % (label, e))
    for k in TOTALS:
        totals[k] = totals.get(k, 0) + int(res.get(k, 0))
    totals.setdefault("replay_wall_s", {})[label] = round(time.time() - t0, 1)
    if res.get("behaviours", 0) != len(behs):
        chk.infra.append("replay %s: %d of %d histories executed" % (label, res.get("behaviours", 0), len(behs)))
    traces.extend(res.get("traces", []))
    return res.get("divergences", [])


def describe(div, beh):
    ops = [s["op"] for s in beh["steps"][: div.get("step", 0) + 1]] if beh else []
    hist = "; ".join("%s(%s%s)" % (o["op"], o["d"], ("," + val(o["v"])) if o["op"] in ("Add", "Set") else "") +
                     ("[%s]" % o["p"] if o["p"] else "") for o in ops)
    return "%s after history: %s\n%s\n%s" % (div["kind"], hist, div.get("detail", ""), "\n".join(div.get("diff") or []))


def val(v):
    if v == -1:
        return "no content"
    if v == -2:
        return "content=7"
    return "bag" + "".join("t%d^%d" % (i + 1, tf) for i, tf in enumerate(tfs_of(v)) if tf) if v else "bag{}"


known_hits = {}


def judge(chk, divs, behs, prof, consts, label):
    by_id = {b["id"]: b for b in behs}
    divs = sorted(divs, key=lambda d: (d.get("step", 0), len(by_id[d["id"]]["steps"]) if d["id"] in by_id else 99, d["id"]))
    seen = set()
    unknown = 0
    for div in divs:
        beh = by_id.get(div["id"])
        kf = vlib.match_known(PROP, div, beh)
        if kf:
            known_hits[kf["id"]] = known_hits.get(kf["id"], 0) + 1
            if known_hits[kf["id"]] == 1:
                chk.known.append((kf["id"], kf["what"]))
            continue
        unknown += 1
        dev = (div.get("diff") or [""])[0].split(" ")[0]
        key = (div["kind"], dev)
        if key in seen and len(chk.violations) >= 3:
            continue
        seen.add(key)
        if len(chk.violations) < 12:
            # minimal reproduction: the history up to the diverging step
            cut = dict(beh, steps=beh["steps"][: div.get("step", 0) + 1]) if beh else None
            chk.violation(describe(div, beh), {"property": PROP, "checker": "vtext", "profile": prof, "behaviour": cut,
                                               "divergence": div, "run": label, "constants": {k: str(v) for k, v in consts.items()}})
    return unknown


# ---------------------------------------------------------------------------- trace validation of the order predicates

def validate_traces(chk, traces, consts, rng, limit):
    """Backward direction for the fusion rules: searches recorded from the real engine are judged by TLC
    with the TLA+ predicates of TextIdx.tla (FusionOK); the verdicts must coincide with the harness's."""
    if not traces:
        chk.infra.append("no judged searches recorded for trace validation")
        return 0
    if len(traces) > limit:
        bad = [t for t in traces if not t["ok"]][:20]
        traces = rng.sample(traces, limit - len(bad)) + bad
    d = vlib.scratch("c09-trace-")
    try:
        path = os.path.join(d, "searches.ndjson")
        with open(path, "w") as f:
            for t in traces:
                f.write(json.dumps(t) + "\n")
        cfg = make_cfg("TraceSpec", consts, ["Inv_Verdicts"], [])
        r = run_tlc("Trace_TextIdx", "Trace_TextIdx.cfg", cfg_text=cfg, workers=1, timeout=600, env_extra={"TRACE": path})
        chk.add_tlc("Trace_TextIdx", r)
        if r.violated or not r.ok:
            chk.infra.append("TLC's verdict on a recorded search differs from the harness's (order predicates of TextIdx.tla vs judge.go):\n%s" %
                             ("\n".join(r.trace[-2:]) or r.error or r.raw_tail)[:2500])
        elif r.distinct != len(traces) + 1:
            chk.infra.append("trace validation visited %d states for %d recorded searches" % (r.distinct, len(traces)))
        return len(traces)
    finally:
        shutil.rmtree(d, ignore_errors=True)


# ---------------------------------------------------------------------------- tiers

def run(tier):
    chk = Check(PROP, tier)
    quick = tier == "quick"
    seed = vlib.seed()
    rng = random.Random(seed)
    totals, traces, families = {}, [], []
    pool = ThreadPoolExecutor(max_workers=4 if quick else 5)

    pos, qv = GEOMS[seed % 3]
    pos2, qv2 = GEOMS[(seed + 1) % 3]
    langs = ["english", "italian"] if seed % 2 else ["italian", "english"]

    # ---- 1. state cover (design level): invariants over every reachable state of the bound, histories of any length
    cover_consts = dict(BASE, Bags=lit(menu(rng, 3, with_empty=True)), AddVals="<- c_AddBoth", MaxOps=99, MaxCtr=3, MaxLog=2, DocSeq="<- c_Docs2")
    if quick:
        cover_futs = [pool.submit(tlc_cover, chk, "MC_TextIdx_cover", cover_consts, 600)]
    else:
        cover_futs = [pool.submit(tlc_cover, chk, "MC_TextIdx_cover_3docs", dict(cover_consts, DocSeq="<- c_Docs3", Bags=lit(menu(rng, 2, with_empty=True))), 3000),
                      pool.submit(tlc_cover, chk, "MC_TextIdx_cover_2docs", dict(cover_consts, MaxCtr=4), 3000)]

    # ---- 2. every history of the bound, replayed
    plans = []
    if quick:
        plans.append(("hist3", dict(BASE, Bags=lit(menu(rng, 3)), MaxOps=3, Pos=pos, QVecs=qv), None,
                      dict(lang=langs[0], add_via="VAdd", decor=False, light=True)))
        plans.append(("hist4_1doc", dict(BASE, DocSeq="<- c_Docs1", Bags=lit(menu(rng, 2)), AddVals="<- c_AddBoth", MaxOps=4, Pos=pos2, QVecs=qv2), None,
                      dict(lang=langs[1], add_via="VAddBatch", decor=True, light=True)))
        plans.append(("walks", dict(BASE, Bags=lit(menu(rng, 4, with_empty=True)), AddVals="<- c_AddBoth", MaxOps=10, Pos=pos2, QVecs=qv2), (250, 10),
                      dict(lang=langs[1], add_via="VAddBatch", decor=True, light=False, m=16)))
    else:
        plans.append(("hist4", dict(BASE, Bags=lit(menu(rng, 3)), MaxOps=4, Pos=pos, QVecs=qv), None,
                      dict(lang=langs[0], add_via="VAdd", decor=False, light=True)))
        plans.append(("hist5_2docs", dict(BASE, DocSeq="<- c_Docs2", Bags=lit(menu(rng, 2)), MaxOps=5, Maint="<- c_MaintRestart", Pos=pos2, QVecs=qv2), None,
                      dict(lang=langs[1], add_via="VAddBatch", decor=True, light=True)))
        plans.append(("hist6_1doc", dict(BASE, DocSeq="<- c_Docs1", Bags=lit(menu(rng, 2)), MaxOps=6, Maint="<- c_MaintRestart", Pos=pos, QVecs=qv), None,
                      dict(lang=langs[1], add_via="VAdd", decor=True, light=True)))
        plans.append(("hist5_1doc", dict(BASE, DocSeq="<- c_Docs1", Bags=lit(menu(rng, 2, with_empty=True)), AddVals="<- c_AddBoth", MaxOps=5, Pos=pos2, QVecs=qv2), None,
                      dict(lang=langs[0], add_via="VAddBatch", decor=False, light=True)))
        for i in range(4):
            g = GEOMS[(seed + i) % 3]
            plans.append(("walks%d" % i, dict(BASE, Bags=lit(menu(rng, 4 + i % 2, with_empty=i % 2 == 0)), AddVals="<- c_AddBoth", MaxOps=14,
                                              Pos=g[0], QVecs=g[1]), (1000, 14),
                          dict(lang=langs[i % 2], add_via=["VAdd", "VAddBatch"][i // 2 % 2], decor=i % 2 == 1, light=False, m=16)))

    def gen(plan):
        name, consts, sim, pr = plan
        wseed = 1000 * seed + plans.index(plan) + 1
        r = tlc_corpus(chk, "MC_TextIdx_" + name, consts, simulate=sim[0] if sim else None, depth=sim[1] if sim else None,
                       timeout=900 if quick else 3000, workers=max(2, vlib.NCPU // 2), walk_seed=wseed)
        if r.violated:
            # design-level counterexample: to be decided on the real code -- emit the corpus of the same bound without the invariants
            r2 = tlc_corpus(chk, "MC_TextIdx_" + name + "_noinv", consts, simulate=sim[0] if sim else None, depth=sim[1] if sim else None,
                            timeout=900 if quick else 3000, workers=max(2, vlib.NCPU // 2), invs=[], walk_seed=wseed)
            return plan, r, r2
        return plan, r, r
    futs = [pool.submit(gen, p) for p in plans]
    canary_fut = pool.submit(tlc_canary, chk, plans[0][1])

    trace_consts = None
    for fut in futs:
        (name, consts, sim, pr), r, rc = fut.result()
        if not rc.corpus:
            raise Infra("corpus run %s produced no histories:\n%s" % (name, rc.raw_tail))
        geom = geometry(rc)
        behs, nrec = vlib.behaviours_from_corpus(rc.corpus)
        prof = profile(geom, pr["lang"], seed, pr["add_via"], pr["decor"], pr["light"], pr.get("m", 8), traces=30 if quick else 60)
        divs = replay(chk, name, behs, prof, totals, traces)
        unknown = judge(chk, divs, behs, prof, consts, name)
        if r.violated:
            if not unknown:
                chk.infra.append("TLC: %s violated by the transcription in %s but the real engine conforms on every history of that bound "
                                 "(transcription or specification error):\n%s" % (r.violated, name, "\n".join(r.trace[-2:])[:2500]))
        families.append({"config": name, "mode": "random walks (%d x depth %d)" % sim if sim else "every history of <= %d operations" % consts["MaxOps"],
                         "bags": consts["Bags"], "histories_replayed": len(behs), "prefixes_with_expectation": nrec,
                         "language": pr["lang"], "add_path": pr["add_via"], "decorated_texts": pr["decor"], "divergences": len(divs)})
        if not chk.cov["samples"]:
            ex = max(behs, key=lambda b: (len(b["steps"]), sum(1 for s in b["steps"] if s["op"]["op"] in ("Set", "Del", "Reopen", "Compress"))))
            chk.cov["samples"] = [{"history": [s["op"] for s in ex["steps"]], "expected_after_last_step": ex["steps"][-1]["exp"]}]
        trace_consts = trace_consts or consts

    canary_fut.result()
    for cf in cover_futs:
        rcov = cf.result()
        if rcov.violated:
            chk.infra.append("TLC: %s violated in the state-cover run (design-level counterexample; no history of the replayed bounds reproduces it "
                             "on the real engine unless reported above):\n%s" % (rcov.violated, "\n".join(rcov.trace[-3:])[:3000]))
    pool.shutdown()

    # ---- 3. the recorded searches, judged by TLC
    ntr = validate_traces(chk, traces, trace_consts, rng, 400 if quick else 3000)

    chk.cov["traces_validated_against_impl"] = totals.get("behaviours", 0)
    chk.cov["evaluations"] = totals.get("text_queries", 0) + totals.get("fusion_searches", 0)
    chk.cov["distinct_nontrivial"] = totals.get("text_nontrivial", 0)
    chk.cov["exhaustive"] = not quick
    chk.cov["binding"] = totals
    chk.cov["families"] = families
    chk.cov["searches_judged_by_tlc"] = ntr
    chk.cov["known_finding_divergences"] = dict(known_hits)
    for key, least in (("behaviours", 100), ("text_nontrivial", 1000), ("scores_multi", 100), ("alpha_half", 1000), ("alpha_interior_small_k", 1000), ("alpha_interior_small_k_candidate_outside_k_nearest", 300), ("text_only", 1000),
                       ("filtered", 100), ("small_k", 100), ("contains_form", 100), ("after_overwrite_or_delete", 100), ("ties", 10)):
        if totals.get(key, 0) < least:
            chk.infra.append("vacuous coverage: %s = %s" % (key, totals.get(key, 0)))
    chk.cov["rule"] = (
        "histories: " + "; ".join("%s: %s over bags %s, %d histories replayed (%s analyser, %s%s)" % (
            f["config"], f["mode"], f["bags"], f["histories_replayed"], f["language"], f["add_path"], ", decorated texts" if f["decorated_texts"] else "")
            for f in families)
        + ". After EVERY step of every history: FindIDsByTextSearch for all 15 non-empty subsets of the 4 terms (result set = Candidates, each score = "
          "BM25 from the specification's integers within 1e-9 relative, non-increasing order); VSearch/VSearchGraph with explicit text query and with the "
          "CONTAINS(content,'..') filter form, alpha in {0, 1/2, 1, one of 0.25/0.4/0.75} and text-only (nil / all-zero vector), each with k in {|docs|+2, 1 or 2}, with and without the "
          "allow-list filter g<2, query vector rotating over 3 lattice vectors (exhaustive families: a rotating third of the 15 queries per step for the fusion "
          "battery; random walks: all 15). State-cover run: invariants over every reachable (corpus, index, snapshot, log) "
          "state with internal id counter <= MaxCtr and journal <= MaxLog, histories of any length.")
    chk.assumptions += [
        "the real-valued formulas are evaluated OUTSIDE TLA+ (TLC has no reals): the specification decides the integers the formula is evaluated on "
        "(tf, df, N, len, total of the current corpus), the candidate set of every query, the exact vector order and the order constraints of the fusion; "
        "the harness evaluates BM25 and alpha*1/(1+d)+(1-alpha)*bm25/max in float64 from those integers and compares within 1e-9 relative",
        "BM25 variant (the one calculateBM25TermScore documents, k1=1.2, b=0.75): idf = ln(1 + (N-df+0.5)/(df+0.5)) (Lucene's non-negative idf), "
        "term score = idf * tf*(k1+1) / (tf + k1*(1-b+b*len/avglen)), avglen = total/N, summed over the query terms; N counts the live documents whose "
        "field holds a string (also one without indexable token), len = number of analysed tokens; queries are term SETS (a repeated query word is not covered)",
        "vector similarity of the fusion is 1/(1+d), d = squared Euclidean distance (normalizeVectorScores); the vector side is kept in the exact regime: "
        "3 documents on an integer lattice with pairwise distinct distances to every query vector (checked by TLC), at most 2*M nodes ever in the index "
        "(M=8, M=16 for walks), float32 and, after VCompress, float16 (lattice integers are exact in both)",
        "0 < alpha < 1 (1/2 and one of 0.25, 0.4, 0.75) is judged for EVERY k by the documented formula on every live allowed document (HybridOK of TextIdx.tla): "
        "score(d) = alpha/(1+dist(d)) + (1-alpha)*bm25(d)/max with the document's OWN BM25 (0 unless it is a candidate, max over the allowed candidates); the returned "
        "list must be a top-k of that score (ties either way), every reported score equal to it within 1e-9, in non-increasing order. alpha = 0: the candidates in text "
        "order, followed -- only when k exceeds their number -- by documents without a text score (fused score 0, any order; the engine takes them from the k nearest); "
        "alpha = 1: the exact vector order. The late fusion with a truncated vector side (a candidate outside the k nearest scored without its vector term, repaired in "
        "76184b9) is kept in the specification only as a named deviation: TLC must refute Canary_LateFusionIsFormula, and the searches on which the two rules differ are counted",
        "when no document has any posting the engine has no text field to search and falls back to a plain vector search (scores not scaled by alpha): accepted "
        "for hybrid queries (same ranking); for a text-only query the specification requires the empty result",
        "3 documents, 4 terms, term frequency <= 2, one text field (\"content\"); texts are space-separated words (optionally decorated with dropped stop words, "
        "capitals, punctuation), each verified through pkg/textanalyzer to analyse to exactly the intended bag; the stemmers themselves are C20's subject",
        "restart paths are the sequential ones (SaveSnapshot, Close+Open, RewriteAOF, VCompress); the transcription of the replay applies the aggregated "
        "entries in DocSeq order where the code uses Go map order (internal ids are not observable); durability itself is C01, crashes C02, concurrency C13",
        "memory decay is disabled (C15); ties (equal scores) may be returned in either order",
    ]
    return chk.finish()


# ---------------------------------------------------------------------------- replay of a recorded violation

def replay_file(path):
    rec = json.load(open(path))
    beh, prof = rec["behaviour"], dict(rec["profile"], max_div=50, traces=0)
    binary = build_vtext()
    res = vlib.run_sharded(binary, "text", prof, [beh], shards=1)
    divs = res.get("divergences", [])
    print(json.dumps({"history": [s["op"] for s in beh["steps"]], "expected_after_last_step": beh["steps"][-1]["exp"],
                      "text_queries": res.get("text_queries"), "fusion_searches": res.get("fusion_searches"),
                      "divergences": [{"step": d["step"], "kind": d["kind"], "detail": d.get("detail"), "diff": d.get("diff")} for d in divs[:20]]}, indent=1))
    if res.get("errors"):
        raise Infra("replay errors: %s" % res["errors"])
    if divs:
        print("VIOLATION property=%s replay=%s" % (PROP, path))
        return vlib.EXIT_VIOLATION
    print("replay: no divergence on the current tree")
    return vlib.EXIT_OK


def main():
    if len(sys.argv) > 2 and sys.argv[1] == "--replay":
        vlib.main_wrapper(lambda: replay_file(sys.argv[2]))
    tier = sys.argv[1] if len(sys.argv) > 1 else os.environ.get("VERIF_TIER", "quick")
    vlib.main_wrapper(lambda: run(tier))


if __name__ == "__main__":
    main()
