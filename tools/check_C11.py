#!/usr/bin/env python3
"""C11 -- Graph queries compute exact bounded reachability and shortest paths.

spec/Paths.tla (+ MC_Paths.tla):
  * declarative definitions ActiveAt / Hop / ValidPath / Dist (bounded relational closure) /
    Reach (depth clamp 5, root included) / Walks;
  * step-wise transcriptions of FindPath (alternating bidirectional BFS) and of the scope BFS of
    resolveGraphFilter / VExtractSubgraph, checked by TLC against the definitions over every
    graph of the bound and every query (design level);
  * the CORPUS channel: TLC enumerates the graphs of the bound (one per isomorphism class, by
    orderly generation) and prints, for each, the answer the specification requires for every
    (source, target, relation subset, direction, depth, time) query.
harness/cmd/vpaths builds every enumerated graph in a real engine (VLink/VUnlink, real
timestamps read back) and issues every query to FindPath, VExtractSubgraph, VSearch with a
GraphQuery and VTraverse; answers are judged with the predicates of the specification.
"""
import itertools, json, os, random, re, sys, time
from concurrent.futures import ThreadPoolExecutor
sys.path.insert(0, os.path.dirname(os.path.abspath(__file__)))
import vlib
from vlib import Check, make_cfg, run_tlc, Infra

PROP = "C11"

BASE = {"N": 4, "NR": 2, "MaxEdges": 5, "MaxDead": 0, "Seeds": "<- c_Empty", "Grow": "TRUE",
        "DepthSeq": "<- c_Depths4", "WalkSeqs": "<- c_Walks4", "AlgRels": "<- c_AllRels", "AlgTimes": '"now"', "EmitTimes": '"all"'}
CHAINS = dict(BASE, N=7, MaxEdges=13, MaxDead=3, Seeds="<- c_Chains", Grow="FALSE",
              DepthSeq="<- c_Depths7", WalkSeqs="<- c_WalksShort")
# graphs on 6 nodes whose answers are checked at the order-independent times under several insertion orders
ROUTES = dict(BASE, N=6, MaxEdges=8, MaxDead=0, Seeds="<- c_Routes", Grow="FALSE",
              DepthSeq="<- c_Depths7", WalkSeqs="<- c_WalksShort", EmitTimes='"ends"')
CAP = dict(BASE, MaxEdges=5, MaxDead=3, Seeds="<- c_CapGraphs", Grow="FALSE", WalkSeqs="<- c_WalksLong")

ALG_INVS = ["Inv_Family", "Inv_FoundIsShortestValid", "Inv_NoneOnlyBeyondDepth", "Inv_ScopeExact", "Inv_ScopeLabels",
            "Inv_Bounded", "Inv_ReachIsLevelSet"]
ALG_PROPS = ["Prop_Progress"]

# relation paths of the WalkSeqs constants, as digit strings (must mirror MC_Paths.tla; the harness
# only needs to know which paths to ISSUE -- the expected walks come from TLC)
WALKS4 = ["".join(p) for k in range(1, 5) for p in itertools.product("12", repeat=k)]
WALKS_SHORT = ["1", "111", "1212"]
WALKS_LONG = ["1" * k for k in (9, 10, 11, 12)] + ["12" * 6]

# number of isomorphism classes (4 nodes x 2 relations, group S4 x S2) by brute-force orbit
# counting outside TLC; the orderly generation of Paths.tla must find exactly these many graphs
ORBITS = {("live", 3): 147, ("live", 4): 993, ("live", 5): 5347, ("any", 2): 77, ("any", 3): 1125, ("any", 4): 16588}


def seeds_literal(graphs):
    return "{" + ", ".join("{" + ", ".join(str(c) for c in g) + "}" for g in graphs) + "}"


def alg_check(chk, name, consts, workers=None, timeout=1500, invs=None):
    """Design level: the transcriptions against the declarative definitions."""
    cfg = make_cfg("SpecAlg", consts, invs or ALG_INVS, ALG_PROPS, deadlock=True)
    r = run_tlc("MC_Paths", name + ".cfg", cfg_text=cfg, workers=workers, timeout=timeout)
    chk.add_tlc(name, r)
    if r.violated or not r.ok:
        return r
    return r


def corpus_run(chk, name, consts, workers=None, timeout=1500, spec="SpecCorpus"):
    cfg = make_cfg(spec, consts, ["Inv_Family"], [])
    r = run_tlc("MC_Paths", name + ".cfg", cfg_text=cfg, workers=workers, timeout=timeout)
    chk.add_tlc(name, r)
    if not r.ok:
        raise Infra("TLC failed on %s:\n%s" % (name, (r.error or r.raw_tail)[:3000]))
    recs = r.corpus
    for rec in recs:
        rec["id"] = "g" + "_".join(str(c) for c in rec["g"]) + ("@%d" % rec["n"])
    return recs, r


def sample_graphs(rng, n, max_dead=2):
    """Seeded sample of labelled graphs of the bound (<= 5 edge versions over 4 nodes x 2 relations,
    soft-deleted versions, re-links); TLC checks each is a member of the family (Inv_Family).
    code = 3 * triple + status (0 live, 1 soft-deleted, 2 second soft-deleted version)."""
    out = set()
    N, NR = 4, 2
    while len(out) < n:
        k = rng.choice([2, 3, 3, 4, 4, 4, 5, 5, 5, 5])
        codes, touched = set(), []
        while len(codes) < k:
            s = rng.choice(touched) if touched and rng.random() < 0.6 else rng.randrange(N)
            t = rng.randrange(N)
            tri = (s * N + t) * NR + rng.randrange(NR)
            u = rng.random() if max_dead > 0 else 1.0
            if u < 0.12:
                vs = [1, 0]            # deleted, linked again
            elif u < 0.16:
                vs = [1, 2]            # deleted twice
            elif u < 0.20:
                vs = [1, 2, 0]         # deleted twice, linked again
            elif u < 0.35:
                vs = [1]
            else:
                vs = [0]
            if len(codes | {3 * tri + v for v in vs}) > k:
                continue
            codes |= {3 * tri + v for v in vs}
            touched += [s, t]
        if sum(1 for c in codes if c % 3) > max_dead or any(c % 3 == 2 and c - 1 not in codes for c in codes):
            continue
        out.add(tuple(sorted(codes)))
    return sorted(out)


def sample_graphs6(rng, n, N=6, NR=2):
    """Seeded sample of labelled graphs on 6 nodes with 5..8 live edges (mostly one relation, so that
    alternative routes of different length between two nodes are frequent)."""
    out = set()
    while len(out) < n:
        k = rng.choice([5, 6, 6, 7, 7, 8])
        codes, touched = set(), []
        while len(codes) < k:
            s = rng.choice(touched) if touched and rng.random() < 0.7 else rng.randrange(N)
            t = rng.randrange(N)
            if s == t and rng.random() < 0.8:
                continue
            r = 0 if rng.random() < 0.8 else rng.randrange(NR)
            codes.add(3 * ((s * N + t) * NR + r))
            touched += [s, t]
        out.add(tuple(sorted(codes)))
    return sorted(out)


def profile(walks, rel_order=0, orders=0):
    return {"batch": 25, "search": True, "traverse": True, "rel_order": rel_order, "max_div": 3, "walk_seqs": walks,
            "orders": orders, "seed": vlib.seed()}


TOTALS = ["graphs", "builds", "queries", "findpath", "paths_found", "paths_beyond_depth", "extract", "search", "traverse",
          "nontrivial", "time_travel", "div_total"]


def replay(chk, recs, prof, totals, label):
    binary = vlib.build_harness(cmd="vpaths")
    t0 = time.time()
    res = vlib.run_sharded(binary, "paths", prof, recs, payload_key="graphs", timeout=3000)
    for e in res.get("errors", []):
        chk.infra.append("replay error (%s): %s" % (label, e))
    for k in TOTALS:
        totals[k] = totals.get(k, 0) + int(res.get(k, 0))
    totals.setdefault("replay_wall_s", {})[label] = round(time.time() - t0, 1)
    if res.get("graphs", 0) != len(recs):
        chk.infra.append("replay %s: %d of %d graphs executed" % (label, res.get("graphs", 0), len(recs)))
    return res.get("divergences", [])


def describe(div, rec):
    return "%s %s\n%s\n%s\ngraph versions [s,t,r,c,d] = %s" % (
        div["kind"], json.dumps(div.get("op")), div.get("detail", ""), "\n".join(div.get("diff") or []),
        json.dumps(rec["vers"]) if rec else "?")


def judge(chk, divs, recs, prof, consts):
    """One report per (graph, divergence kind, interface); smallest graphs first (minimal reproductions)."""
    by_id = {r["id"]: r for r in recs}
    divs = sorted(divs, key=lambda d: (len(by_id[d["id"]]["vers"]) if d["id"] in by_id else 99, d["id"], d["kind"]))
    seen = set()
    for div in divs:
        rec = by_id.get(div["id"])
        kf = vlib.match_known(PROP, div)
        if kf:
            chk.known.append((kf["id"], kf["what"]))
            continue
        key = (div["id"], div["kind"], (div.get("op") or {}).get("op"))
        if key in seen:
            continue
        seen.add(key)
        if len(chk.violations) < 20:
            chk.violation(describe(div, rec), {"property": PROP, "checker": "vpaths", "profile": prof, "graph": rec,
                                               "divergence": div, "constants": {k: str(v) for k, v in consts.items()}})
        else:
            chk.violations.append((describe(div, rec), "(not written: more than 20 violations)"))


def reproduce_design_counterexample(chk, r, consts, prof):
    """A transcription invariant failed in TLC: decide on the real code (violation) or report a spec error."""
    text = "\n".join(r.trace[-1:]) if r.trace else ""
    m = re.search(r"/\\ g = (\{[^}]*\})", text)
    if not m:
        chk.infra.append("TLC: %s violated, cannot extract the graph:\n%s" % (r.violated, (r.error or "")[:2000]))
        return
    g = [int(x) for x in re.findall(r"\d+", m.group(1))]
    c2 = dict(consts, Seeds=seeds_literal([g]), Grow="FALSE")
    recs, _ = corpus_run(chk, "MC_Paths_cex", c2, workers=2)
    totals = {}
    divs = replay(chk, recs, prof, totals, "counterexample")
    if divs:
        judge(chk, divs, recs, prof, c2)
    else:
        chk.infra.append("TLC: %s violated by the transcription on graph %s but the real code conforms on every query of that graph "
                         "(transcription or spec error):\n%s" % (r.violated, g, text[:2500]))


def run(tier):
    chk = Check(PROP, tier)
    rng = random.Random(vlib.seed())
    quick = tier == "quick"
    totals = {}
    rel_order = vlib.seed() % 2
    # every graph is rebuilt under extra edge-insertion orders (reversed + seeded) and queried again at
    # the order-independent times: the traversal order of the implementation follows insertion order
    prof4 = profile(WALKS4, rel_order, orders=2 if quick else 1)
    prof7 = profile(WALKS_SHORT, rel_order, orders=2)
    prof6 = profile(WALKS_SHORT, rel_order, orders=3)
    profcap = profile(WALKS_LONG, rel_order, orders=1)

    # ---------------------------------------------------------------- 1. design level (runs beside 2./3.)
    ALGD = "<- c_DepthsAlg"
    if quick:
        sample_alg = [g for g in sample_graphs(random.Random(vlib.seed() + 1000), 400, max_dead=0) if len(g) >= 4][:60]
        alg_runs = [("MC_Paths_alg_live3", dict(BASE, MaxEdges=3, DepthSeq=ALGD)),
                    ("MC_Paths_alg_sample", dict(BASE, MaxEdges=5, DepthSeq=ALGD, Seeds=seeds_literal(sample_alg), Grow="FALSE"))]
    else:
        alg_runs = [("MC_Paths_alg_live5", dict(BASE, MaxEdges=5, DepthSeq=ALGD)),
                    ("MC_Paths_alg_time2", dict(BASE, MaxEdges=2, MaxDead=2, AlgTimes='"all"', DepthSeq=ALGD))]
    alg_runs.append(("MC_Paths_alg_chains", dict(CHAINS)))
    alg_runs.append(("MC_Paths_alg_routes", dict(ROUTES, DepthSeq=ALGD)))

    def do_alg(name, consts):
        # on 7 nodes the two auxiliary lemmas (BFS labels, level sets) are left to the 4-node runs
        invs = [i for i in ALG_INVS if i not in ("Inv_ScopeLabels", "Inv_ReachIsLevelSet")] if consts["N"] != 4 else None
        return name, consts, alg_check(chk, name, consts, workers=max(2, vlib.NCPU // 2), timeout=900 if quick else 3000, invs=invs)

    pool = ThreadPoolExecutor(max_workers=4)
    alg_futures = [pool.submit(do_alg, name, consts) for name, consts in alg_runs]

    # ---------------------------------------------------------------- 2. corpus + 3. binding
    def bind(name, consts, prof, orbit=None, keep=None):
        recs, r = corpus_run(chk, name, consts, workers=max(2, vlib.NCPU // 2), timeout=900 if quick else 3000)
        if orbit and r.distinct != ORBITS[orbit]:
            chk.infra.append("%s: TLC enumerated %d graphs, the bound has %d isomorphism classes" % (name, r.distinct, ORBITS[orbit]))
        if keep:
            recs = [x for x in recs if keep(x)]
        if not recs:
            raise Infra("corpus run %s produced no graphs:\n%s" % (name, r.raw_tail))
        if not chk.cov["samples"]:
            ex = max(recs, key=lambda x: len(x["vers"]))
            chk.cov["samples"] = [{"graph_versions_s_t_r_c_d": ex["vers"],
                                   "cases_T_relmask_adj_dist_reachOut_reachIn_reachBoth": ex["cases"][:3],
                                   "walks_root_rho_set": ex["walks"][:3]}]
        divs = replay(chk, recs, prof, totals, name)
        judge(chk, divs, recs, prof, consts)
        families.append({"config": name, "graphs_enumerated_by_tlc": r.distinct, "graphs_replayed": len(recs),
                         "isomorphism_classes_of_the_bound": ORBITS.get(orbit) if orbit else None,
                         "bound": "N=%s nodes, %s relations, <= %s edge versions, <= %s soft-deleted, %s" % (
                             consts["N"], consts["NR"], consts["MaxEdges"], consts["MaxDead"],
                             "all graphs up to isomorphism" if consts["Grow"] == "TRUE" else "given graphs")})
        return len(recs), len(divs)

    families = []
    if quick:
        sample = sample_graphs(rng, 300, max_dead=3)
        consts = dict(BASE, MaxEdges=5, MaxDead=3, Seeds=seeds_literal(sample), Grow="FALSE")
        bind("MC_Paths_corpus_sample", consts, prof4)
    else:
        bind("MC_Paths_corpus_live5", dict(BASE, MaxEdges=5, MaxDead=0), prof4, orbit=("live", 5))
        bind("MC_Paths_corpus_any4", dict(BASE, MaxEdges=4, MaxDead=4), prof4, orbit=("any", 4),
             keep=lambda x: any(v[4] != 0 for v in x["vers"]))
    bind("MC_Paths_corpus_routes", dict(ROUTES), prof6)
    sample6 = sample_graphs6(random.Random(vlib.seed() + 2000), 40 if quick else 400)
    bind("MC_Paths_corpus_sample6", dict(ROUTES, Seeds=seeds_literal(sample6)), prof6)
    bind("MC_Paths_corpus_chains", dict(CHAINS), prof7)
    bind("MC_Paths_corpus_cap", dict(CAP), profcap)

    # ---------------------------------------------------------------- design level: verdicts
    for fut in alg_futures:
        name, consts, r = fut.result()
        if r.violated:
            reproduce_design_counterexample(chk, r, consts, prof4 if consts["N"] == 4 else prof7 if consts["N"] == 7 else prof6)
    pool.shutdown()

    chk.cov["traces_validated_against_impl"] = totals.get("graphs", 0)
    chk.cov["evaluations"] = totals.get("queries", 0)
    chk.cov["distinct_nontrivial"] = totals.get("nontrivial", 0)
    chk.cov["exhaustive"] = not quick
    chk.cov["binding"] = totals
    # vacuity guards: the run must have exercised what it claims
    for key, least in (("graphs", 1), ("paths_found", 100), ("nontrivial", 1000), ("time_travel", 1000), ("extract", 100), ("search", 100), ("traverse", 100)):
        if totals.get(key, 0) < least:
            chk.infra.append("vacuous coverage: %s = %s" % (key, totals.get(key, 0)))
    chk.cov["families"] = families
    chk.cov["rule"] = (
        "graphs: " + "; ".join("%s: %d enumerated by TLC, %d replayed (%s)" % (f["config"], f["graphs_enumerated_by_tlc"], f["graphs_replayed"], f["bound"])
                               for f in families)
        + (". quick: the 4-node graphs are a seeded sample of labelled graphs of the bound" if quick else
           ". thorough: every graph up to isomorphism (node x relation permutations) with <= 5 live edges, and every graph up to isomorphism "
           "with <= 4 edge versions in any soft-delete / re-link pattern (up to 3 versions per edge; those with a deleted version are replayed, "
           "the others are part of the first family)")
        + ". Every graph with at least two events is rebuilt under extra edge-insertion orders (the canonical history reversed, then seeded "
          "orders; %d builds in all) and queried again at the order-independent times (now, before everything, after the last event); the "
          "6-node families (two routes of different length + tail, in both edge directions; seeded 5..8-edge graphs) are emitted at those times only"
          % totals.get("builds", 0)
        + ". Per graph: every (source,target) x non-empty relation subset x depth of DepthSeq x time in {now, before all, each event boundary "
          "(exactly at the event and at the last instant before the next)} to FindPath; every root x relation subset x depth x time to "
          "VExtractSubgraph; every root x subset x direction {out,in,both,default} x depth to VSearch+GraphQuery (now); every root x relation "
          "path of WalkSeqs to VTraverse (now). A query is non-trivial when the required answer is not the trivial one (Dist > 0, scope larger "
          "than the root, non-empty walk set).")
    chk.assumptions += [
        "graphs have 4 nodes and 2 relations (7 nodes for the hand-made chain family that exercises the depth clamp 5, default depths and paths of up to 6 hops; "
        "a hand-made 4-node family of self-referential graphs exercises the traversal cap 10)",
        "insertion order: the answers of the specification do not depend on the order of a history's events, the traversal order of the "
        "implementation does; besides the canonical history each graph is replayed under 1-3 other orders, not under all of them",
        "the history of a graph is the canonical one (link first versions in code order, soft-delete, re-link, soft-delete, re-link); at most 3 versions per "
        "(source,target,relation); edge weights/properties do not vary; no hard deletes, no node deletes (C12), no restart (C01)",
        "abstract times are refined to the real timestamps read back from VGetEdges: a query at abstract time i is issued at the timestamp of event i and at "
        "the last nanosecond before event i+1 (one hour later for the last event)",
        "the design-level check treats the queue order of the code as nondeterministic (every parent / meeting node the code could pick is checked) and, on "
        "4 nodes, queries only T = 0 for graphs of <= 5 live edges (FindPath and the scope BFS see a graph only through its active edge set) and every T for "
        "graphs of <= 2 versions",
        "FindPath may also return a (shortest, valid) path longer than maxDepth: the property only requires a path when Dist <= maxDepth "
        "(the code reaches 2*maxDepth-1 hops; counted as paths_beyond_depth)",
        "VSearch is issued with k larger than the index so that the graph scope, not the top-k cut, decides membership; all graph nodes carry a vector, two "
        "extra vectors outside the graph must never appear in a scope",
    ]
    return chk.finish()


def replay_file(path):
    rec = json.load(open(path))
    g, prof = rec["graph"], rec["profile"]
    chk = Check(PROP, "replay")
    # regenerate the expected answers from the specification for exactly this graph
    consts = dict(BASE)
    consts.update(rec.get("constants") or {})
    consts.update(Seeds=seeds_literal([g["g"]]), Grow="FALSE")
    recs, _ = corpus_run(chk, "MC_Paths_replay", consts, workers=2, timeout=600)
    if len(recs) != 1:
        raise Infra("replay: TLC produced %d records" % len(recs))
    fresh = recs[0]
    same = sorted(map(json.dumps, fresh["cases"])) == sorted(map(json.dumps, g["cases"]))
    binary = vlib.build_harness(cmd="vpaths")
    prof = dict(prof, max_div=50)
    res = vlib.run_sharded(binary, "paths", prof, [fresh], shards=1, payload_key="graphs")
    divs = res.get("divergences", [])
    print(json.dumps({"graph_versions_s_t_r_c_d": fresh["vers"], "expected_answers_regenerated_identical": same,
                      "queries": res.get("queries"), "divergences": divs[:50]}, indent=1))
    if res.get("errors"):
        raise Infra("replay errors: %s" % res["errors"])
    if divs:
        print("VIOLATION property=%s replay=%s" % (PROP, path))
        return vlib.EXIT_VIOLATION
    print("replay: no divergence on the current tree")
    return vlib.EXIT_OK


def main():
    if len(sys.argv) > 2 and sys.argv[1] == "--replay":
        vlib.main_wrapper(lambda: replay_file(sys.argv[2]))
    tier = sys.argv[1] if len(sys.argv) > 1 else os.environ.get("VERIF_TIER", "quick")
    vlib.main_wrapper(lambda: run(tier))


if __name__ == "__main__":
    main()
