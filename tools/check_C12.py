#!/usr/bin/env python3
import os, sys
sys.path.insert(0, os.path.dirname(os.path.abspath(__file__)))
import engine_checks
engine_checks.main("C12")
