#!/usr/bin/env python3
"""C13: concurrent use is free of races, deadlocks and lost updates.
(1) TLC on spec/Conc.tla: the read-modify-write cycles of VReinforce / VSetMetadata on one node, all
    interleavings of 2-3 callers; with Locked=TRUE every returned reinforcement is counted and every merged
    key kept; the diagnostic run with Locked=FALSE must produce the lost update (non-vacuity).
(2) backward conformance: the real engine (race-detector build, hooks injecting yields) is driven by
    concurrent clients + snapshots, compaction, vacuum, refine, index create/delete, a stalled event
    subscriber and Close; the recorded trace is validated by TLC against spec/Trace_Conc.tla.
    A data-race report, a panic, or a call that never returns is a violation observed on real code."""
import concurrent.futures, json, os, random, re, shutil, subprocess, sys
sys.path.insert(0, os.path.dirname(os.path.abspath(__file__)))
import vlib
from vlib import Check, make_cfg, run_tlc, Infra

PROP = "C13"
MC = """---- MODULE MC_Conc ----
EXTENDS Conc
c_Callers2 == {"p", "q"}
c_Callers3 == {"p", "q", "r"}
c_Keys2 == {"x", "y"}
====
"""
TMC = """---- MODULE MC_TraceConc ----
EXTENDS Trace_Conc
c_Items == {"r1", "r2"}
c_KVKeys == {"shared", "late"}
====
"""


def model_check(chk, quick):
    c = {"Callers": "<- c_Callers2" if quick else "<- c_Callers3", "Keys": "<- c_Keys2", "MaxCalls": 2, "Locked": "TRUE"}
    r = run_tlc("MC_Conc", "c.cfg", cfg_text=make_cfg("Spec", c, ["Inv_AllCounted", "Inv_AllKeysKept", "Inv_MutualExclusion"]),
                extra_files={"MC_Conc.tla": MC}, timeout=900)
    chk.add_tlc("MC_Conc_locked", r)
    # non-vacuity: without the lock TLC must exhibit the lost update
    c2 = dict(c, Locked="FALSE", Callers="<- c_Callers2")
    r2 = run_tlc("MC_Conc", "c.cfg", cfg_text=make_cfg("Spec", c2, ["Inv_AllCounted", "Inv_AllKeysKept"]),
                 extra_files={"MC_Conc.tla": MC}, timeout=900)
    chk.cov["tlc_runs"].append({"config": "MC_Conc_unlocked(diagnostic)", "violated": r2.violated, "distinct_states": r2.distinct})
    if not r2.violated:
        chk.infra.append("diagnostic run without the lock did not produce a lost update: the invariants are vacuous")


def inductive_check(chk):
    """Apalache on spec/ConcInd.tla: IndInv is inductive for Conc.tla with the lock, for ANY number of calls per caller
    (MaxCalls is unconstrained), and implies the three invariants TLC checks for MaxCalls = 2. Four obligations: base,
    step, IndInv => Goal, and the diagnostic (without the lock the step must FAIL, else IndInv is vacuous). The verdict
    of C13 on the code comes from the executions below; a failed obligation is an inconsistency of the specification
    (exit 2), an Apalache that cannot be run is recorded and nothing more."""
    runs = [("base", "ConstInit", "Init", "IndInv", 0, "NoError"),
            ("step", "ConstInit", "IndInit", "IndInv", 1, "NoError"),
            ("goal", "ConstInit", "IndInit", "Goal", 0, "NoError"),
            ("step_without_lock(diagnostic)", "ConstInitUnlocked", "IndInit", "IndInv", 1, "Error")]
    with concurrent.futures.ThreadPoolExecutor(max_workers=4) as ex:
        futs = [(n, want, ex.submit(vlib.run_apalache, "ConcInd", ci, ini, inv, ln)) for n, ci, ini, inv, ln, want in runs]
        res = {}
        for n, want, f in futs:
            r = f.result()
            r["expected"] = want
            res[n] = r
            if r["outcome"] != "unavailable" and r["outcome"] != want:
                chk.infra.append("Apalache obligation %s of ConcInd.tla: outcome %s, expected %s" % (n, r["outcome"], want))
    chk.cov["apalache_inductive_invariant"] = {
        "module": "ConcInd.tla", "constants": "Callers={p,q,r}, Keys={x,y}, MaxCalls \\in Nat (unconstrained)",
        "obligations": res,
        "discharged": all(r["outcome"] == r["expected"] for r in res.values())}


SAME_MC = """---- MODULE MC_SameItem ----
EXTENDS SameItem
c_W2 == {"p", "q"}
====
"""


def same_item_observation(chk):
    """Outside the listed properties (see spec/SameItem.tla): two writers of one item. TLC must find the
    journal-order / apply-order inversion without a per-item lock and none with it; the counterexample is forced
    onto the real engine. Reported as an observation in the evidence, never as a verdict."""
    obs = {}
    for locked in ("FALSE", "TRUE"):
        r = run_tlc("MC_SameItem", "s.cfg", cfg_text=make_cfg("Spec", {"Writers": "<- c_W2", "Locked": locked}, ["Inv_RestartAgrees"]),
                    extra_files={"MC_SameItem.tla": SAME_MC}, timeout=300)
        obs["spec_locked_%s" % locked] = {"violated": r.violated, "distinct_states": r.distinct}
    try:
        binary = vlib.build_harness()
        p = subprocess.run([binary, "sameitem"], capture_output=True, text=True, timeout=120)
        real = json.loads(p.stdout)
        obs["real_engine_forced_schedule"] = real
        if real.get("forced") and real.get("live") != real.get("after_restart"):
            print("OBSERVATION: two writers of one key, journal order p,q / apply order q,p (forced): live value %r, after a clean restart %r "
                  "(outside the listed properties: C14 assumes one writer per item, C13 does not mention restarts)" % (real.get("live"), real.get("after_restart")))
    except Exception as e:   # an observation must never break the check
        obs["real_engine_forced_schedule"] = {"error": str(e)[:200]}
    chk.cov["observation_same_item_writers"] = obs


def validate(path):
    cfg = make_cfg("TraceSpec", {"Items": "<- c_Items", "KVKeys": "<- c_KVKeys"}, ["TInv_CountsBounded"], [],
                   constraint="HighWater", postcondition="TraceAccepted")
    return run_tlc("MC_TraceConc", "t.cfg", cfg_text=cfg, extra_files={"MC_TraceConc.tla": TMC}, workers=1, timeout=300,
                   dfs=True, env_extra={"TRACE": path})


def one(job):
    binary, d = job["binary"], job["dir"]
    path = os.path.join(d, "c%d.ndjson" % job["i"])
    argv = [binary, "conc", "-out", path, "-seed", str(job["seed"]), "-clients", str(job["clients"]), "-ops", str(job["ops"]),
            "-procs", str(job["procs"])]
    if job["close_early"]:
        argv.append("-close-early")
    env = dict(os.environ, TMPDIR=d, GORACE="halt_on_error=0 exitcode=0")
    try:
        p = subprocess.run(argv, capture_output=True, text=True, env=env, timeout=400)
    except subprocess.TimeoutExpired:
        return job, "hang", "driver did not finish within 400 s", None
    if "WARNING: DATA RACE" in p.stderr:
        m = re.search(r"WARNING: DATA RACE.*?(?=\n==================|\Z)", p.stderr, re.S)
        return job, "race", (m.group(0) if m else p.stderr)[:6000], None
    if p.returncode == 3:
        return job, "hang", p.stderr[:60000], None
    if "panic:" in p.stderr or "fatal error:" in p.stderr:
        return job, "panic", p.stderr[:6000], None
    if p.returncode != 0:
        return job, "error", "rc=%d %s" % (p.returncode, p.stderr[-800:]), None
    events = [json.loads(l) for l in open(path)]
    r = validate(path)
    if not r.ok and not r.printed.get("REJECTED") and not r.violated:
        # TLC did not reach a verdict (parse error, timeout, killed): infrastructure, never a violation
        return job, "error", "TLC gave no verdict on the recorded trace: %s" % ((r.error or r.raw_tail or "")[:600]), None
    return job, ("accepted" if r.ok else "rejected"), r, events


def race_signature(text):
    """Stable signature of a race report: the two top application frames."""
    frames = re.findall(r"^\s+(github\.com/sanonone/kektordb/[\w./()*-]+)\(", text, re.M)
    top = []
    for f in frames:
        if "verifharness" in f:
            continue
        if f not in top:
            top.append(f)
        if len(top) == 2:
            break
    return " | ".join(top) or "unknown"


def run(tier):
    chk = Check(PROP, tier)
    quick = tier == "quick"
    rng = random.Random(vlib.seed())
    model_check(chk, quick)
    inductive_check(chk)
    same_item_observation(chk)
    binary = vlib.build_harness(race=True)
    d = vlib.scratch("conc-")
    n = 6 if quick else 60
    jobs = [{"i": i, "binary": binary, "dir": d, "seed": rng.randrange(1 << 30), "clients": rng.choice([3, 4, 6]),
             "ops": rng.choice([40, 80]) if quick else rng.choice([60, 150, 300]), "procs": rng.choice([2, 4, 8]),
             "close_early": rng.random() < 0.3} for i in range(n)]
    accepted = nevents = 0
    samples = []
    try:
        with concurrent.futures.ThreadPoolExecutor(max_workers=3 if quick else 4) as ex:
            for job, status, info, events in ex.map(one, jobs):
                params = {k: v for k, v in job.items() if k not in ("binary", "dir")}
                if status == "accepted":
                    accepted += 1
                    nevents += len(events)
                    chk.cov["states"] += info.distinct
                    chk.cov["transitions"] += info.generated
                    if len(samples) < 2:
                        samples.append(events[:12])
                    continue
                if status == "error":
                    chk.infra.append("driver failed: %s" % info)
                    continue
                if status == "rejected":
                    rej = (info.printed.get("REJECTED") or [{}])[0]
                    what = ("recorded trace violates %s" % info.violated) if info.violated else (
                        "recorded trace is not explained by Trace_Conc.tla: first unexplained event #%s of %s: %s" % (
                            rej.get("at"), rej.get("of"), json.dumps(rej.get("ev"))))
                    div = {"kind": "trace_rejected", "op": {"op": (rej.get("ev") or {}).get("op", (rej.get("ev") or {}).get("e"))}, "diff": [what]}
                    rep = {"property": PROP, "job": params, "events": events, "rejected": rej}
                elif status == "race":
                    what = "data race reported by the race detector: %s\n%s" % (race_signature(info), info[:2500])
                    div = {"kind": "data_race", "op": {"op": "race"}, "diff": ["race=" + race_signature(info)]}
                    rep = {"property": PROP, "job": params, "race": info}
                else:
                    what = "%s under concurrent load:\n%s" % (status, info[:2500])
                    div = {"kind": status, "op": {"op": status}, "diff": [info[:1500]]}
                    rep = {"property": PROP, "job": params, status: info}
                kf = vlib.match_known(PROP, div, None)
                if kf:
                    chk.known.append((kf["id"], kf["what"]))
                else:
                    chk.violation(what + "\ndriver parameters: %s" % json.dumps(params), rep)
    finally:
        shutil.rmtree(d, ignore_errors=True)
    chk.cov["traces_validated_against_impl"] = accepted
    chk.cov["evaluations"] = nevents
    chk.cov["distinct_nontrivial"] = accepted
    chk.cov["rule"] = ("one trace per seeded scenario (clients x operations x GOMAXPROCS x shutdown-in-the-middle) of the real engine built with -race; "
                       "non-trivial = the trace was recorded completely and contains concurrent reinforcements/merges on shared nodes")
    chk.cov["samples"] = samples or ["(no accepted trace)"]
    chk.assumptions += [
        "data races are decided by the Go race detector on the recorded executions, not by the specification",
        "schedules are those the Go scheduler produces under seeded yields at hook points and varying GOMAXPROCS; not exhaustive",
        "gardener (pkg/cognitive) goroutines are not started",
    ]
    return chk.finish()


def replay_file(path):
    rec = json.load(open(path))
    job = dict(rec["job"], binary=vlib.build_harness(race=True), dir=vlib.scratch("conc-"))
    try:
        j, status, info, events = one(job)
    finally:
        shutil.rmtree(job["dir"], ignore_errors=True)
    print("status:", status)
    if status in ("race", "hang", "panic"):
        print(info[:4000])
    if status not in ("accepted",):
        print("VIOLATION property=%s replay=%s" % (PROP, path))
        return vlib.EXIT_VIOLATION
    print("replay: trace accepted on the current tree (schedules are not deterministic)")
    return vlib.EXIT_OK


if __name__ == "__main__":
    if len(sys.argv) > 2 and sys.argv[1] == "--replay":
        vlib.main_wrapper(lambda: replay_file(sys.argv[2]))
    vlib.main_wrapper(lambda: run(sys.argv[1] if len(sys.argv) > 1 else "quick"))
