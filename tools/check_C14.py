#!/usr/bin/env python3
"""C14: no acknowledged write is lost to a concurrent snapshot, compaction or shutdown.
(1) TLC on spec/Writer.tla: every interleaving of client calls (journal / apply split), the lazy
    writer goroutine, SaveSnapshot, RewriteAOF, Flush and Close within small constants.
(2) forward conformance: complete behaviours emitted by TLC are forced onto the real engine with
    blocking hooks (clients parked between journal and apply, admin procedures between phases),
    then Close + Open, and the acknowledged versions are compared with the recovered ones.
(3) backward conformance: traces recorded from unforced concurrent load are validated by TLC
    against Trace_Writer.tla (same actions, constrained by logged fields)."""
import json, os, random, sys
sys.path.insert(0, os.path.dirname(os.path.abspath(__file__)))
import vlib
from vlib import Check, make_cfg, run_tlc, Infra

PROP = "C14"
INVS = ["Inv_NoAckedLoss", "Inv_NoAckedLossStrict", "Inv_EveryAckedWrite", "Inv_Conservation", "Inv_BarrierClosesGap"]
PROPS = ["Prop_FlushCovers"]


def consts(clients, maxver, maxadmin, maxflush, barrier=False, closewaits=False, snapfails=True, capturewaits=True, droprace=False,
           snapclosewaits=True, volatile=None):
    return {"SnapCloseWaits": "TRUE" if snapclosewaits else "FALSE", "Volatile": "<- " + (volatile or clients),
            "Clients": "<- " + clients, "MaxVer": maxver, "MaxAdmin": maxadmin, "MaxFlush": maxflush,
            "Barrier": "TRUE" if barrier else "FALSE", "CloseWaits": "TRUE" if closewaits else "FALSE",
            "SnapFails": "TRUE" if snapfails else "FALSE", "CaptureWaits": "TRUE" if capturewaits else "FALSE", "DropRace": "TRUE" if droprace else "FALSE"}


def model_check(chk, name, c, timeout):
    r = run_tlc("MC_Writer", name + ".cfg", cfg_text=make_cfg("SpecH", c, INVS, PROPS, view="ViewH"), timeout=timeout)
    chk.add_tlc(name, r)
    if r.violated:
        chk.infra.append("TLC: %s violated in %s:\n%s" % (r.violated, name, "\n".join(t.split("\n")[0] for t in r.trace)))
    return r


def corpus(chk, name, c, simulate=None, depth=None, timeout=900):
    r = run_tlc("MC_Writer", name + ".cfg", cfg_text=make_cfg("SpecCorpus", c, [], [], view="ViewH"), timeout=timeout,
                workers=1 if simulate else 8, simulate=simulate, depth=depth, seed_=vlib.seed() if simulate else None)
    if not simulate:
        chk.add_tlc(name, r)
    else:
        chk.cov["tlc_runs"].append({"config": name, "mode": "simulate", "walks": simulate, "depth": depth,
                                    "complete_behaviours": len(r.corpus), "wall_s": round(r.wall, 1)})
    return r.corpus


def dedup(recs):
    seen, out = set(), []
    for r in recs:
        k = json.dumps(r["ops"], sort_keys=True)
        if k not in seen:
            seen.add(k)
            out.append(r)
    return out


def judge(chk, behaviours, res):
    bmap = {b["id"]: b for b in behaviours}
    lost_total = 0
    for r in res.get("results", []):
        b = bmap[r["id"]]
        if not r.get("lost"):
            continue
        lost_total += 1
        div = {"kind": "acked_write_lost", "op": {"op": "schedule"},
               "diff": ["dev=%s" % ",".join(sorted(b.get("dev", []))), "lost=%s acked=%s recovered=%s %s" % (
                   r["lost"], r["acked"], r["recovered"], r.get("note", ""))]}
        kf = vlib.match_known(PROP, div, None)
        if kf:
            chk.known.append((kf["id"], kf["what"]))
            continue
        chk.violation("acknowledged write lost after Close/Open: lost=%s acked=%s recovered=%s\nschedule=%s\nspec deviations on this behaviour: %s" % (
            r["lost"], r["acked"], r["recovered"], json.dumps([(o["a"], o["c"]) for o in b["ops"]]), b.get("dev")),
            {"property": PROP, "checker": "writer", "behaviour": b, "result": r})
    return lost_total


def kinds_arg():
    """Numbering of the lazy writer's command kinds, read from the CURRENT source (a const block with iota)."""
    import re
    src = open(os.path.join(vlib.REPO, "pkg/persistence/lazy_aof.go")).read()
    m = re.search(r"const \((.*?)\n\)", src[src.index("DefaultLazyFlushInterval ="):][-0:] if False else src[src.rindex("const (", 0, src.index("cmdFlush commandKind")):], re.S)
    names = {"cmdFlush": "flush", "cmdSync": "sync", "cmdClose": "close", "cmdTruncate": "truncate", "cmdReplaceWith": "replace",
             "cmdBeginSnapshot": "begin", "cmdEndSnapshot": "end", "cmdIsSnapshotActive": "isactive", "cmdErr": "err",
             "cmdEndSnapshotReappend": "endreappend"}
    idx, out = 0, []
    for line in m.group(1).split("\n"):
        line = line.split("//")[0].strip()
        if not line:
            continue
        ident = re.match(r"([A-Za-z_]\w*)", line)
        if not ident:
            continue
        if ident.group(1) in names:
            out.append("%d=%s" % (idx, names[ident.group(1)]))
        elif ident.group(1).startswith("cmd"):
            raise Infra("unknown lazy writer command %s: harness outdated" % ident.group(1))
        idx += 1
    if len(out) < 9:
        raise Infra("could not read the command kinds from lazy_aof.go")
    return ",".join(out)


TRACE_MC = """---- MODULE MC_TraceWriter ----
EXTENDS Trace_Writer
c_TClients == {%s}
c_TVolatile == {%s}
====
"""


def validate_trace(path, clients, volatile=()):
    mc = TRACE_MC % (", ".join('"%s"' % c for c in clients), ", ".join('"%s"' % c for c in volatile))
    cfg = make_cfg("TraceSpec", {"SnapCloseWaits": "TRUE", "Volatile": "<- c_TVolatile", "Clients": "<- c_TClients", "MaxVer": 1000000, "MaxAdmin": 1000000, "MaxFlush": 1000000,
                                 "Barrier": "FALSE", "CloseWaits": "FALSE", "SnapFails": "TRUE", "CaptureWaits": "TRUE", "DropRace": "FALSE"},
                   ["TInv_NoAckedLoss"], [], constraint="HighWater", postcondition="TraceAccepted")
    r = run_tlc("MC_TraceWriter", "t.cfg", cfg_text=cfg, extra_files={"MC_TraceWriter.tla": mc}, workers=1, timeout=1800,
                dfs=True, env_extra={"TRACE": path})
    return r


def record_and_validate(chk, n, rng):
    """Backward conformance: record n traces of the real write path under unforced load and let TLC
    explain each of them with Trace_Writer.tla."""
    import subprocess, concurrent.futures
    binary = vlib.build_harness()
    kinds = kinds_arg()
    d = vlib.scratch("wtrace-")
    jobs = []
    for i in range(n):
        nc = rng.choice([2, 2, 3])
        jobs.append({"i": i, "clients": nc, "versions": rng.choice([3, 5, 8]), "admin": rng.choice([1, 2, 3]),
                     "seed": rng.randrange(1 << 30), "close_early": rng.random() < 0.35,
                     "vadd": rng.choice([0, 0, 1, nc])})     # how many of the clients write with VAdd (own index, one vector per version)
    results = []

    def one(job):
        path = os.path.join(d, "t%d.ndjson" % job["i"])
        argv = [binary, "wtrace", "-out", path, "-clients", str(job["clients"]), "-versions", str(job["versions"]),
                "-admin", str(job["admin"]), "-seed", str(job["seed"]), "-kinds", kinds, "-vadd", str(job.get("vadd", 0))]
        if job["close_early"]:
            argv.append("-close-early")
        env = dict(os.environ, TMPDIR=d)
        p = subprocess.run(argv, capture_output=True, text=True, env=env, timeout=120)
        if p.returncode == 3:
            return job, "hang", p.stderr[-500:], None
        if p.returncode != 0:
            return job, "error", "rc=%d %s" % (p.returncode, p.stderr[-500:]), None
        events = [json.loads(l) for l in open(path)]
        r = validate_trace(path, ["c%d" % (k + 1) for k in range(job["clients"])], ["c%d" % (k + 1) for k in range(job.get("vadd", 0))])
        if not r.ok and not r.printed.get("REJECTED") and not r.violated:
            return job, "error", "TLC gave no verdict on the recorded trace: %s" % ((r.error or r.raw_tail or "")[:600]), None
        return job, ("accepted" if r.ok else "rejected"), r, events

    try:
        with concurrent.futures.ThreadPoolExecutor(max_workers=6) as ex:
            for job, status, info, events in ex.map(one, jobs):
                results.append((job, status, info, events))
    finally:
        import shutil
        shutil.rmtree(d, ignore_errors=True)
    accepted = 0
    nevents = 0
    for job, status, info, events in results:
        if status == "accepted":
            accepted += 1
            nevents += len(events)
            chk.cov["states"] += info.distinct
            chk.cov["transitions"] += info.generated
        elif status == "rejected":
            rej = (info.printed.get("REJECTED") or [{}])[0]
            if info.violated:
                what = "recorded trace violates %s of Writer.tla" % info.violated
            else:
                what = "recorded trace of the real write path is not a behaviour of Writer.tla: first unexplained event #%s of %s: %s" % (
                    rej.get("at"), rej.get("of"), json.dumps(rej.get("ev")))
            div = {"kind": "trace_rejected", "op": {"op": "trace"}, "diff": [what]}
            kf = vlib.match_known(PROP, div, None)
            if kf:
                chk.known.append((kf["id"], kf["what"]))
            else:
                chk.violation(what + "\nrecorder parameters: %s" % json.dumps(job), {"property": PROP, "checker": "wtrace", "job": job, "events": events,
                                                                                   "rejected": rej, "violated": info.violated})
        elif status == "hang":
            chk.violation("a client or admin call did not return within 20 s after Close: " + str(info),
                          {"property": PROP, "checker": "wtrace", "job": job, "hang": True})
        else:
            chk.infra.append("trace recorder failed: %s" % info)
    chk.cov["recorded_traces"] = len(results)
    chk.cov["recorded_traces_with_vadd_clients"] = sum(1 for job, status, _, _ in results if job.get("vadd") and status == "accepted")
    chk.cov["recorded_traces_accepted"] = accepted
    chk.cov["recorded_events"] = nevents
    chk.cov["traces_validated_against_impl"] += accepted
    return accepted


def flush_coverage(chk, trials, rng):
    import subprocess
    binary = vlib.build_harness()
    p = subprocess.run([binary, "wflush", "-trials", str(trials), "-seed", str(rng.randrange(1 << 30))], capture_output=True, text=True, timeout=1200)
    if p.returncode != 0:
        chk.infra.append("wflush failed: rc=%d %s" % (p.returncode, p.stderr[-400:]))
        return
    res = json.loads(p.stdout)
    for e in (res.get("errors") or [])[:3]:
        chk.infra.append("wflush: " + e)
    chk.cov["flush_coverage_trials"] = res.get("trials", 0)
    chk.cov["flush_coverage_records"] = res.get("records", 0)
    chk.cov["evaluations"] += res.get("trials", 0)
    fails = res.get("failures") or []
    if fails:
        f = fails[0]
        chk.violation("Prop_FlushCovers does not hold on the real LazyAOFWriter (%d of %d trials): %s (maxBufferSize=%d)" % (
            len(fails), res.get("trials", 0), f["detail"], f["max_buffer_size"]),
            {"property": PROP, "checker": "wflush", "failures": fails[:10]})


def replay_file(path):
    rec = json.load(open(path))
    if rec.get("checker") == "wflush":
        chk = Check(PROP, "quick")
        flush_coverage(chk, 200, random.Random(vlib.seed()))
        if chk.violations:
            print("VIOLATION property=%s replay=%s" % (PROP, path))
            return vlib.EXIT_VIOLATION
        print("replay: Flush/Sync/Begin cover every earlier write on the current tree (200 trials)")
        return vlib.EXIT_OK
    if rec.get("checker") == "wtrace" and rec.get("events"):
        # a recorded trace: re-validate the stored events against the current Trace_Writer.tla
        d = vlib.scratch("wtrace-replay-")
        try:
            tp = os.path.join(d, "t.ndjson")
            with open(tp, "w") as f:
                for ev in rec["events"]:
                    f.write(json.dumps(ev) + "\n")
            r = validate_trace(tp, ["c%d" % (k + 1) for k in range(rec["job"]["clients"])], ["c%d" % (k + 1) for k in range(rec["job"].get("vadd", 0))])
        finally:
            import shutil
            shutil.rmtree(d, ignore_errors=True)
        if r.ok:
            print("replay: the recorded trace is a behaviour of Writer.tla (current spec)")
            return vlib.EXIT_OK
        print("rejected:", r.printed.get("REJECTED"), r.violated, (r.error or "")[:300])
        print("VIOLATION property=%s replay=%s" % (PROP, path))
        return vlib.EXIT_VIOLATION
    binary = vlib.build_harness()
    res = vlib.run_sharded(binary, "writer", {}, [rec["behaviour"]], shards=1)
    print(json.dumps(res, indent=1))
    if any(r.get("lost") for r in res.get("results", [])):
        print("VIOLATION property=%s replay=%s" % (PROP, path))
        return vlib.EXIT_VIOLATION
    print("replay: no acknowledged write lost on the current tree")
    return vlib.EXIT_OK


def run(tier):
    chk = Check(PROP, tier)
    rng = random.Random(vlib.seed())
    quick = tier == "quick"
    # 1. design level
    if quick:
        model_check(chk, "MC_Writer_faithful", consts("c_Clients2", 1, 1, 1), 900)
        model_check(chk, "MC_Writer_ideal", consts("c_Clients1", 2, 1, 1, barrier=True, closewaits=True), 900)
    else:
        model_check(chk, "MC_Writer_faithful", consts("c_Clients2", 2, 1, 1), 3000)
        model_check(chk, "MC_Writer_faithful_2admin", consts("c_Clients1", 2, 2, 1), 3000)
        model_check(chk, "MC_Writer_ideal", consts("c_Clients2", 2, 1, 1, barrier=True, closewaits=True), 3000)
    # canary: without the capture barrier the specification must exhibit the journal/apply gap (a loss without exemption)
    rc = run_tlc("MC_Writer", "MC_Writer_gap_canary.cfg", cfg_text=make_cfg("SpecH", consts("c_Clients1", 1, 1, 0, capturewaits=False, snapfails=False),
                                                                         ["Inv_NoAckedLossStrict"], [], view="ViewH"), timeout=900)
    chk.cov["tlc_runs"].append({"config": "MC_Writer_gap_canary", "expected": "Inv_NoAckedLossStrict violated", "violated": rc.violated, "wall_s": round(rc.wall, 1)})
    if rc.violated != "Inv_NoAckedLossStrict":
        chk.infra.append("canary: with CaptureWaits=FALSE the specification must lose an acknowledged write, TLC said: %s %s" % (rc.violated, (rc.error or "")[:300]))
    rc2 = run_tlc("MC_Writer", "MC_Writer_droprace_canary.cfg", cfg_text=make_cfg("SpecH", consts("c_Clients1", 1, 0, 0, snapfails=False, droprace=True),
                                                                             ["Inv_EveryAckedWrite"], [], view="ViewH"), timeout=900)
    chk.cov["tlc_runs"].append({"config": "MC_Writer_droprace_canary", "expected": "Inv_EveryAckedWrite violated", "violated": rc2.violated, "wall_s": round(rc2.wall, 1)})
    if rc2.violated != "Inv_EveryAckedWrite":
        chk.infra.append("canary: with DropRace=TRUE the specification must drop an acknowledged write, TLC said: %s %s" % (rc2.violated, (rc2.error or "")[:300]))
    # canary: a shutdown that does not wait for a snapshot in progress (the protocol before c40f673) lets the snapshot capture
    # the core after DB.Close -- no vector index at all -- and rename that image over the good one
    rc3 = run_tlc("MC_Writer", "MC_Writer_closesnap_canary.cfg", cfg_text=make_cfg("SpecH", consts("c_Clients1", 1, 2, 0, snapfails=False, snapclosewaits=False),
                                                                              ["Inv_NoAckedLossStrict"], [], view="ViewH"), timeout=900)
    chk.cov["tlc_runs"].append({"config": "MC_Writer_closesnap_canary", "expected": "Inv_NoAckedLossStrict violated", "violated": rc3.violated, "wall_s": round(rc3.wall, 1)})
    if rc3.violated != "Inv_NoAckedLossStrict":
        chk.infra.append("canary: with SnapCloseWaits=FALSE the specification must lose an acknowledged write (image of a closed core), TLC said: %s %s" % (rc3.violated, (rc3.error or "")[:300]))
    # 2. forced schedules from complete TLC behaviours
    recs = corpus(chk, "MC_Writer_corpus", consts("c_Clients2", 1, 1, 0), timeout=1800)
    recs += corpus(chk, "MC_Writer_walks", consts("c_Clients2", 3, 2, 1), simulate=400 if quick else 4000, depth=60)
    recs = dedup(recs)
    if not recs:
        raise Infra("no complete behaviour in the corpus")
    n = 160 if quick else 4000
    if len(recs) > n:
        # keep every behaviour that exercises a deviation or an admin procedure racing with a client, sample the rest
        recs = rng.sample(recs, n)
    behaviours = [dict(r, id="s%d" % i) for i, r in enumerate(recs)]
    binary = vlib.build_harness()
    res = vlib.run_sharded(binary, "writer", {}, behaviours)
    for e in res.get("errors", []):
        chk.infra.append("schedule replay error: " + e)
    lost = judge(chk, behaviours, res)
    forced = sum(r.get("forced", 0) for r in res.get("results", []))
    chk.cov["traces_validated_against_impl"] = res.get("behaviours", 0)
    chk.cov["evaluations"] = forced
    chk.cov["distinct_nontrivial"] = sum(1 for b in behaviours if any(o["a"] == "A_Begin" for o in b["ops"]) and any(o["a"] == "C_Apply" for o in b["ops"]))
    chk.cov["rule"] = ("complete behaviours of Writer.tla (Init .. closed and quiescent) emitted by TLC (BFS: one per final state; simulation walks), "
                       "forced onto the real engine with blocking hooks; non-trivial = a client write and a snapshot/compaction both occur")
    chk.cov["samples"] = [[(o["a"], o["c"]) for o in b["ops"]] for b in behaviours[:3]]
    chk.cov["schedules_with_loss_on_real_code"] = lost
    chk.cov["forced_steps"] = forced
    skipped = sum(r.get("skipped", 0) for r in res.get("results", []))
    chk.cov["skipped_steps"] = skipped     # steps of a schedule that could not be forced (the procedure had already ended)
    if forced == 0 or skipped > forced:
        chk.infra.append("forced-schedule replay is (nearly) vacuous: %d steps forced, %d skipped" % (forced, skipped))
    # 2b. the same complete behaviours with the other kinds of client write (one VAdd; one VAddBatch of several records)
    for kind in ("vadd", "vbatch"):
        sub = rng.sample(behaviours, min(len(behaviours), 50 if quick else 800))
        kb = [dict(b, id="%s_%s" % (kind, b["id"]), kind=kind) for b in sub]
        kres = vlib.run_sharded(binary, "writer", {}, kb)
        for e in kres.get("errors", []):
            chk.infra.append("schedule replay error (%s): %s" % (kind, e))
        judge(chk, kb, kres)
        chk.cov["traces_validated_against_impl"] += kres.get("behaviours", 0)
        chk.cov["evaluations"] += sum(r.get("forced", 0) for r in kres.get("results", []))
        chk.cov.setdefault("forced_schedules_by_kind", {})[kind] = kres.get("behaviours", 0)
    # 2c. refusal probes: schedules the specification FORBIDS. With CaptureWaits = FALSE the model takes A_Capture while a
    #     call sits between its journal write and its memory update (tag capture_in_gap; TLC refutes Inv_NoAckedLossStrict on
    #     them, see the canary). Forced onto the implementation, the forbidden step must not happen: the procedure has to
    #     wait at its capture for as long as the call is parked. If the implementation takes the step anyway, the schedule
    #     is carried on and judged by what the restart reads (a loss is then a violation shown on the real code).
    precs = corpus(chk, "MC_Writer_probe_corpus", consts("c_Clients2", 1, 1, 0, capturewaits=False, snapfails=False), timeout=1800)
    precs = [r for r in dedup(precs) if "capture_in_gap" in (r.get("cov") or [])]
    if not precs:
        raise Infra("no capture_in_gap behaviour in the deviation corpus: the refusal probes are vacuous")
    if len(precs) > (12 if quick else 200):
        precs = rng.sample(precs, 12 if quick else 200)
    probes = [dict(r, id="p%d_%s" % (i, kind), kind=kind, probe=True) for i, r in enumerate(precs) for kind in ("kv", "vadd", "vbatch")]
    # the same for a shutdown that overtakes a snapshot (SnapCloseWaits = FALSE; tag close_during_snapshot): Close has to wait
    crecs = corpus(chk, "MC_Writer_closeprobe_corpus", consts("c_Clients1", 1, 2, 0, snapfails=False, snapclosewaits=False), timeout=1800)
    crecs = [r for r in dedup(crecs) if "close_during_snapshot" in (r.get("cov") or [])]
    if not crecs:
        raise Infra("no close_during_snapshot behaviour in the deviation corpus: the shutdown probes are vacuous")
    if len(crecs) > (10 if quick else 150):
        crecs = rng.sample(crecs, 10 if quick else 150)
    chk.cov["shutdown_probe_schedules"] = len(crecs) * 2
    probes += [dict(r, id="pc%d_%s" % (i, kind), kind=kind, probe=True) for i, r in enumerate(crecs) for kind in ("vadd", "vbatch")]
    pres = vlib.run_sharded(binary, "writer", {}, probes)
    for e in pres.get("errors", []):
        chk.infra.append("probe replay error: " + e)
    plost = judge(chk, probes, pres)
    refused = sum(r.get("refused", 0) for r in pres.get("results", []))
    proceeded = sum(r.get("proceeded", 0) for r in pres.get("results", []))
    chk.cov["refusal_probes"] = {"schedules": len(probes), "forbidden_steps_refused": refused, "forbidden_steps_taken": proceeded,
                                 "schedules_with_loss_on_real_code": plost,
                                 "rule": "behaviours of Writer.tla with CaptureWaits = FALSE that take A_Capture while a call is between journal "
                                         "and apply; per kind of write (KVSet, VAdd, VAddBatch); refused = the procedure did not pass its capture "
                                         "within 300 ms while the call was parked"}
    chk.cov["traces_validated_against_impl"] += pres.get("behaviours", 0)
    if refused + proceeded == 0:
        chk.infra.append("refusal probes are vacuous: no forbidden step was attempted")
    # 3. backward conformance: traces of unforced concurrent load validated by TLC
    record_and_validate(chk, 16 if quick else 150, rng)
    # 4. Prop_FlushCovers / the full drain of W_FlushQ and A_BeginQ on the real LazyAOFWriter at a scale where its
    #    size limits matter (maxBufferSize 1..3, bursts beyond it queued while the writer goroutine is parked)
    flush_coverage(chk, 80 if quick else 1500, rng)
    chk.assumptions += [
        "steps internal to the lazy writer goroutine (Recv, Tick) are not forced; the real scheduler places them",
        "each client owns one KV key; versions are the values written",
        "Flush is stated for calls served while no snapshot/compaction is in progress (the shadow buffer cannot be flushed by design)",
    ]
    return chk.finish()


if __name__ == "__main__":
    if len(sys.argv) > 2 and sys.argv[1] == "--replay":
        vlib.main_wrapper(lambda: replay_file(sys.argv[2]))
    vlib.main_wrapper(lambda: run(sys.argv[1] if len(sys.argv) > 1 else "quick"))
