#!/usr/bin/env python3
"""C15 -- memory decay and reinforcement obey their stated laws.

spec/Decay.tla gives the decay factor as a case analysis (exact rationals or bounds + order
constraints) and Reinforce as a small state machine.  TLC checks the laws over the spec's own
table and emits every state through the corpus channel; every state is one test on the real code:

  SpecFn     white-box: the unexported functions of pkg/engine/search_utils.go, called from a
             _test.go file injected with `go test -overlay` (nothing is written into /repo)
  SpecMem    black-box: one family of twin memories (ages x access counts) per state, in a real
             engine index; observed through VSearchWithScores (breakdown), VSearchGraph, VSearch
  SpecReinf  black-box: behaviours of the Reinforce machine (Tick = all timestamps move into the
             past, Reinforce = Engine.VReinforce), observed through the same calls + VGet

Expectations are TLC's; the Go side only evaluates/observes; this script judges."""
import concurrent.futures, json, os, random, sys
sys.path.insert(0, os.path.dirname(os.path.abspath(__file__)))
import vlib
from vlib import Check, make_cfg, run_tlc, Infra

PROP = "C15"
WB_SRC = os.path.join(vlib.HARNESS, "cmd", "c15decay", "whitebox", "zz_c15_decay_test.go.txt")
WB_NAME = "zz_c15_decay_test.go"

NAMES = ["exponential", "linear", "step", "ebbinghaus", "bogus", ""]
OVERRIDES = ["-"] + NAMES
PINNEDS = ["-", "btrue", "bfalse", "strue", "sfalse"]
LAYS = ["none", "zero", "val", "missing", "dflt"]
CTYPES = ["float64", "int", "int64"]
HLS = [0, 7200, 604800]


def S(xs):
    def one(x):
        if isinstance(x, bool):
            return "TRUE" if x else "FALSE"
        if isinstance(x, str):
            return json.dumps(x)
        return str(x)
    return "{" + ", ".join(one(x) for x in xs) + "}"


def constants(tier, rng):
    """Constant sets of the three configurations.  quick: a seeded sub-grid (exhaustively
    enumerated by TLC); thorough: the full product."""
    quick = tier == "quick"
    c = {
        "Ages": "<- c_AgesStd", "Accs": S([0, 1, 20]),
        "FnModels": S(NAMES), "FnHLs": "<- c_FnHLsStd",
        "HLs": S(HLS), "Models": S(NAMES), "Overrides": S(OVERRIDES), "Pinneds": S(PINNEDS), "Lays": S(LAYS),
        "Enableds": S([True, False]), "CTypes": S(CTYPES),
        "RModels": S(NAMES), "RHLs": S(HLS), "RCnt0s": S([0, 20]), "RAge0s": S([0, 2]),
        "Ticks": S([1, 2]), "MaxNow": 6, "MaxOps": 4,
    }
    if quick:
        c["Overrides"] = S(["-"] + rng.sample(NAMES, 3))
        c["CTypes"] = S([rng.choice(CTYPES)])
        c["RHLs"] = S(rng.sample(HLS, 2))
        c["MaxOps"] = 3
        c["MaxNow"] = 4
    mem, rein = dict(c), dict(c)
    if not quick:
        mem["Ages"] = "<- c_AgesMid"
        rein["MaxOps"] = 5
    fn = dict(c)
    if not quick:
        fn.update({"Ages": "<- c_AgesWide", "Accs": S([0, 1, 2, 5, 20, 1000]), "FnHLs": "<- c_FnHLsWide",
                   "FnModels": S(NAMES + ["Linear", "exp"])})
    # the override product, enumerated in EVERY tier whatever the seed: every model name as
    # per-memory _decay_model (and absent) on every index default model x ages x access counts,
    # with and without a configured layer; executed through all three search entry points
    ov = dict(c)
    ov.update({"Ages": "<- c_AgesStd", "HLs": S([604800]), "Models": S(NAMES), "Overrides": S(OVERRIDES), "Pinneds": S(["-"]),
               "Lays": S(["none", "val"]), "Enableds": S([True]), "CTypes": S(["float64"])})
    return fn, mem, rein, ov


# ------------------------------------------------------------------------------- judging

TINY = 1e-12


def q(r):
    return r[0] / r[1]


def within(v, lo, hi, tol):
    return v is not None and lo - tol <= v <= hi + tol


def judge_whitebox(rec, vals, sims):
    """rec: SpecFn corpus record; vals: per member {model, direct, legacy}; -> (evaluations, divergences)"""
    divs, n = [], 0
    ms = rec["members"]
    for which in ("model", "direct", "legacy"):
        fn = {"model": "calculateTimeDecayModel", "direct": "calculate%sDecay" % rec["model"].capitalize(), "legacy": "calculateTimeDecay"}[which]
        got = [v.get(which) for v in vals]
        for i, m in enumerate(ms):
            if got[i] is None:
                continue
            n += 1
            if not within(got[i], q(m["lo"]), q(m["hi"]), TINY):
                divs.append({"kind": "decay_value", "op": fn, "detail": "%s(model=%r hl=%s age=%ss (h=%s) acc=%s) = %r, spec: [%s/%s, %s/%s]" % (
                    fn, rec["fam"]["model"], rec["fam"]["hl"], m["age_s"], m["h"], m["acc"], got[i], m["lo"][0], m["lo"][1], m["hi"][0], m["hi"][1])})
        for rel, strict in (("ge", False), ("gt", True)):
            for i, j in rec[rel]:
                a, b = got[i - 1], got[j - 1]
                if a is None or b is None:
                    continue
                n += 1
                bad = not (a > b) if strict else not (a >= b)
                if bad:
                    mi, mj = ms[i - 1], ms[j - 1]
                    divs.append({"kind": "decay_order", "op": fn, "detail": "%s(model=%r hl=%s): factor(h=%s acc=%s)=%r must be %s factor(h=%s acc=%s)=%r" % (
                        fn, rec["fam"]["model"], rec["fam"]["hl"], mi["h"], mi["acc"], a, ">" if strict else ">=", mj["h"], mj["acc"], b)})
    for s, got in zip(rec["sims"], sims):
        n += 1
        if abs(got - s[2] / s[3]) > TINY:
            divs.append({"kind": "similarity", "op": "normalizeVectorScores", "detail": "distance %s/%s -> %r, spec %s/%s" % (s[0], s[1], got, s[2], s[3])})
    return n, divs


def _factor_checks(label, members_exp, obs_of, tol_of, ge, gt, sorted_flags, describe, step, alt_tol=lambda key: 0.0):
    """Shared by families and reinforce steps.  members_exp: {key: {lo, hi, alt}}; obs_of(key) -> memObs;
    -> (evaluations, divergences).  A divergence carries dev=<name> when the observed value is
    exactly what a modelled deviation of the code predicts."""
    divs, n = [], 0

    def div(kind, op, detail, dev=None):
        divs.append({"kind": kind, "op": op, "detail": (("deviation=%s " % dev) if dev else "") + label + " " + detail, "step": step, "dev": dev})

    fac = {"scored": {}, "fused": {}}
    devs = {}
    for key, exp in members_exp.items():
        o = obs_of(key)
        if o is None or o.get("scored") is None or o.get("graph") is None or o.get("search_pos", -1) < 0:
            div("missing_result", "search", "memory %s not returned by every search (%s)" % (key, json.dumps(o)))
            continue
        sc, gr = o["scored"], o["graph"]
        tol = tol_of(key)
        who = describe(key)
        lo, hi = q(exp["lo"]), q(exp["hi"])
        # reported score = similarity x decay
        n += 1
        if abs(sc["score"] - sc["sim"] * sc["factor"]) > TINY or not (0 < sc["sim"] <= 1):
            div("score_product", "VSearchWithScores", "%s: score %r != similarity %r x decay %r" % (who, sc["score"], sc["sim"], sc["factor"]))
        # decay factor shown by the breakdown
        n += 1
        fac["scored"][key] = sc["factor"]
        if not within(sc["factor"], lo, hi, tol):
            dev = None
            for alt in exp.get("alt") or []:
                if within(sc["factor"], q(alt["lo"]), q(alt["hi"]), max(tol, alt_tol(key))):
                    dev = alt["dev"]
            devs[key] = dev
            div("decay_factor", "VSearchWithScores", "%s: decay_factor %r, spec [%s/%s, %s/%s] tol %.2g" % (
                who, sc["factor"], exp["lo"][0], exp["lo"][1], exp["hi"][0], exp["hi"][1], tol), dev)
        # decay factor applied by searchWithFusion: score / similarity (same distance, same 1/(1+d))
        n += 1
        f = gr["score"] / sc["sim"] if sc["sim"] > 0 else None
        fac["fused"][key] = f
        # one memory has one decay factor: the breakdown of VSearchWithScores and the factor applied by
        # VSearch/VSearchGraph agree (up to the clock drift between the two calls)
        if f is not None and not devs.get(key):
            n += 1
            if abs(f - sc["factor"]) > 2 * max(tol, alt_tol(key)) + TINY:
                div("entry_points_disagree", "VSearchWithScores", "%s: decay_factor %r but VSearchGraph applied %r (score %r / similarity %r)" % (
                    who, sc["factor"], f, gr["score"], sc["sim"]))
        if not within(f, lo, hi, tol):
            div("decay_factor", "VSearchGraph", "%s: score %r / similarity %r = %r, spec [%s/%s, %s/%s] tol %.2g" % (
                who, gr["score"], sc["sim"], f, exp["lo"][0], exp["lo"][1], exp["hi"][0], exp["hi"][1], tol))
    # order constraints between members
    for rel, strict in ((ge, False), (gt, True)):
        for x, y in rel:
            for path, op in (("scored", "VSearchWithScores"), ("fused", "VSearchGraph")):
                a, b = fac[path].get(x), fac[path].get(y)
                if a is None or b is None:
                    continue
                n += 1
                slack = 0.0 if strict else tol_of(x) + tol_of(y)
                bad = not (a > b) if strict else not (a >= b - slack)
                if bad:
                    dev = (devs.get(x) or devs.get(y)) if path == "scored" else None
                    div("decay_order", op, "factor(%s)=%r must be %s factor(%s)=%r" % (describe(x), a, ">" if strict else ">=", describe(y), b), dev)
    # results are ordered by the score
    n += 2
    if not sorted_flags[0]:
        div("not_sorted", "VSearchWithScores", "results are not in descending score order")
    if not sorted_flags[1]:
        div("not_sorted", "VSearchGraph", "results are not in descending score order")
    got = [(obs_of(k)["search_pos"], k) for k in members_exp if obs_of(k) and obs_of(k).get("graph") and obs_of(k).get("search_pos", -1) >= 0]
    got.sort()
    for (p1, k1), (p2, k2) in zip(got, got[1:]):
        n += 1
        s1, s2 = obs_of(k1)["graph"]["score"], obs_of(k2)["graph"]["score"]
        if not (s1 >= s2 - 2 * (tol_of(k1) + tol_of(k2))):
            div("rank_order", "VSearch", "%s (score %r) is listed before %s (score %r)" % (k1, s1, k2, s2))
    return n, divs


def judge_family(rec, gobs):
    st = gobs["steps"][0]
    drift = max(0, st["t1"] - gobs["t_add"])
    ms = rec["members"]
    exp = {"m%d" % i: m for i, m in enumerate(ms)}

    def tol_of(key):
        m = exp[key]
        if not rec["decays"] or rec["ehl_s"] <= 0 or m["h"] < 0:
            return TINY
        return (drift + 1.0) / rec["ehl_s"] + 1e-9

    f = rec["fam"]
    label = "family(hl=%s model=%r override=%r pinned=%s layer=%s enabled=%s ctype=%s)" % (
        f["hl"], f["model"], f["ov"], f["pinned"], f["lay"], f["enabled"], f["ctype"])
    key = lambda i: "m%d" % (i - 1)
    ge = [(key(i), key(j)) for i, j in rec["ge"]]
    gt = [(key(i), key(j)) for i, j in rec["gt"]]
    describe = lambda k: "%s[h=%s age=%ss acc=%s]" % (k, exp[k]["h"], exp[k]["age_s"], exp[k]["acc"])
    # a modelled deviation makes a family decay that ideally does not: its alternative envelope needs the drift tolerance
    alt_tol = lambda k: TINY if exp[k]["h"] < 0 else (drift + 1.0) / rec["unit_s"] + 1e-9
    return _factor_checks(label, exp, lambda k: st["mems"].get(k), tol_of, ge, gt, (st["scored_sorted"], st["graph_sorted"]), describe, 0, alt_tol)


def judge_behaviour(beh, gobs):
    """beh: {steps: [{op, exp}]} from the Reinforce machine; gobs.steps[i] is the observation after op i
    (op 0 = Init = the two VAdd)."""
    divs, n = [], 0
    init = beh["steps"][0]["op"]
    unit = init["unit_s"]
    label0 = "reinforce(model=%r hl=%s cnt0=%s age0=%ss) ops=%s" % (init["model"], init["hl_s"], init["cnt0"], init["age0_s"],
                                                                 json.dumps([s["op"] for s in beh["steps"][1:]]))
    for i, (s, st) in enumerate(zip(beh["steps"], gobs["steps"])):
        exp = s["exp"]
        if exp is None:
            continue
        drift = max(0, st["t1"] - gobs["t_add"])
        tol = (drift + 1.0) / unit + 1e-9
        label = label0 + " after step %d" % i
        for x, e in exp["mems"].items():
            o = st["mems"].get(x)
            if o is None:
                continue
            # the access count went up by exactly one per reinforcement
            n += 1
            cnt = o["meta"]["cnt"] if o["meta"]["cnt"] is not None else 0
            if cnt != e["cnt"]:
                divs.append({"kind": "access_count", "op": "VReinforce", "step": i, "dev": None,
                             "detail": "%s: _access_count of %s is %r (%s), spec %s" % (label, x, o["meta"]["cnt"], o["meta"]["cnt_type"], e["cnt"])})
            # the reference time moved to the moment of the reinforcement
            n += 1
            last = o["meta"]["last"]
            if not e["last_age_s"]:
                if last is not None:
                    divs.append({"kind": "last_accessed", "op": "VReinforce", "step": i, "dev": None,
                                 "detail": "%s: %s was never reinforced but has _last_accessed=%r" % (label, x, last)})
            elif last is None or abs((st["t1"] - last) - e["last_age_s"][0]) > drift + 1:
                divs.append({"kind": "last_accessed", "op": "VReinforce", "step": i, "dev": None,
                             "detail": "%s: _last_accessed of %s is %r = %s s ago, spec %s s ago (drift %s s)" % (
                                 label, x, last, None if last is None else st["t1"] - last, e["last_age_s"][0], drift)})
        ge = [(x, y) for x, y in exp["ge"]]
        describe = lambda key: "%s[age=%ss cnt=%s reinforced=%sx]" % (key, exp["mems"][key]["age_s"], exp["mems"][key]["cnt"], exp["mems"][key]["rein"])
        k, d = _factor_checks(label, exp["mems"], lambda key: st["mems"].get(key), lambda key: tol, ge, [],
                              (st["scored_sorted"], st["graph_sorted"]), describe, i)
        n += k
        divs += d
        # the literal ranking statement: a reinforced memory is not listed below its unreinforced twin
        # unless their scores tie
        for x, y in (("a", "b"), ("b", "a")):
            ex, ey = exp["mems"][x], exp["mems"][y]
            ox, oy = st["mems"].get(x), st["mems"].get(y)
            if not (ex["rein"] > 0 and ey["rein"] == 0) or not ox or not oy or not ox.get("scored") or not oy.get("scored") or not ox.get("graph") or not oy.get("graph"):
                continue
            for path, op, px, py, sx, sy in (("scored", "VSearchWithScores", ox["scored"]["pos"], oy["scored"]["pos"], ox["scored"]["score"], oy["scored"]["score"]),
                                             ("graph", "VSearchGraph", ox["graph"]["pos"], oy["graph"]["pos"], ox["graph"]["score"], oy["graph"]["score"]),
                                             ("search", "VSearch", ox["search_pos"], oy["search_pos"], ox["graph"]["score"], oy["graph"]["score"])):
                n += 1
                if sx < sy - 2 * tol:
                    divs.append({"kind": "reinforced_ranks_below", "op": op, "step": i, "dev": None,
                                 "detail": "%s: reinforced %s (score %r, position %s) ranks below unreinforced twin %s (score %r, position %s)" % (label, x, sx, px, y, sy, py)})
    return n, divs


# ------------------------------------------------------------------------------- binding

def family_group(rec, gid, rng):
    f = rec["fam"]
    layers = rec["layers"] if isinstance(rec["layers"], dict) and rec["layers"] else None
    vec = [1.0, rng.choice([0.0, 0.5, 1.0]), 0.0, 0.0]
    zero_as = rng.choice(["absent", "float64"])
    mems = []
    for i, m in enumerate(rec["members"]):
        mems.append({"id": "m%d" % i, "age_s": m["age_s"], "ctype": f["ctype"], "acc": m["acc"],
                     "acc_type": zero_as if m["acc"] == 0 else "float64",
                     "pinned": "absent" if f["pinned"] == "-" else f["pinned"], "layer": rec["layer"],
                     "override": None if f["ov"] == "-" else f["ov"], "vec": vec})
    cfg = {"enabled": f["enabled"], "model": f["model"], "hl_s": f["hl"], "layers": layers,
           "nil_cfg": (not f["enabled"]) and rng.random() < 0.5}
    return {"id": gid, "cfg": cfg, "query": [1.0, 0.0, 0.0, 0.0], "mems": mems, "ops": []}


def behaviour_group(beh, gid, rng):
    init = beh["steps"][0]["op"]
    ctype = rng.choice(CTYPES)
    acc_type = "absent" if init["cnt0"] == 0 else rng.choice(CTYPES)
    vec = [1.0, rng.choice([0.0, 0.5]), 0.0, 0.0]
    mems = [{"id": x, "age_s": init["age0_s"], "ctype": ctype, "acc": init["cnt0"], "acc_type": acc_type, "pinned": "absent",
             "layer": "", "override": None, "vec": vec} for x in ("a", "b")]
    ops = []
    for s in beh["steps"][1:]:
        op = s["op"]
        ops.append({"op": "Tick", "d_s": op["d_s"]} if op["op"] == "Tick" else {"op": "Reinforce", "ids": [op["id"]]})
    return {"id": gid, "cfg": {"enabled": True, "model": init["model"], "hl_s": init["hl_s"], "layers": None}, "query": [1.0, 0.0, 0.0, 0.0],
            "mems": mems, "ops": ops}


def run_blackbox(groups):
    binary = vlib.build_harness(cmd="c15decay")
    res = vlib.run_sharded(binary, "run", {}, groups, payload_key="groups", timeout=1800)
    return res


def run_whitebox(records):
    d = vlib.scratch("c15wb-")
    try:
        fin, fout = os.path.join(d, "corpus.json"), os.path.join(d, "out.json")
        with open(fin, "w") as f:
            json.dump(records, f)
        with open(WB_SRC) as f:
            src = f.read()
        rc, out = vlib.go_test_overlay("pkg/engine", {WB_NAME: src}, run="^TestC15DecayCorpus$", timeout=900,
                                       extra_env={"C15_CORPUS": fin, "C15_OUT": fout})
        if rc != 0 or not os.path.exists(fout):
            raise Infra("white-box go test failed (rc=%s):\n%s" % (rc, out[-3000:]))
        with open(fout) as f:
            return json.load(f)
    finally:
        import shutil
        shutil.rmtree(d, ignore_errors=True)


def judge_groups(items, res):
    """items: {gid: (kind, rec, group)} -> (evaluations, {gid: [divs]})"""
    n, out = 0, {}
    seen = set()
    for gobs in res.get("obs", []):
        kind, rec, group = items[gobs["id"]]
        seen.add(gobs["id"])
        k, divs = (judge_family if kind == "family" else judge_behaviour)(rec, gobs)
        n += k
        if divs:
            out[gobs["id"]] = divs
    return n, out, seen


# ------------------------------------------------------------------------------- the check

def tlc(chk, name, spec, consts, invs, props=(), workers=4, timeout=900):
    cfg = make_cfg(spec, consts, invs, props)
    r = run_tlc("MC_Decay", name + ".cfg", cfg_text=cfg, workers=workers, timeout=timeout)
    return name, r


def run(tier):
    chk = Check(PROP, tier)
    rng = random.Random(vlib.seed())
    quick = tier == "quick"
    cfn, cmem, crein, cov_ = constants(tier, rng)
    vlib.build_harness(cmd="c15decay")

    # 1. TLC: the laws over the spec's own table + the corpus (one record per state)
    jobs = [("Decay_fn", "SpecFn", cfn, ["Inv_FnLaws"], [], 2),
            ("Decay_mem", "SpecMem", cmem, ["Inv_MemLaws"], [], 8),
            ("Decay_override", "SpecMem", cov_, ["Inv_MemLaws"], [], 2),
            ("Decay_reinforce", "SpecReinf", crein,
             ["Inv_ReinforcedNotBelow", "Inv_DominanceOrdersEnvelopes", "Inv_CountIsInitPlusReinforcements"],
             ["Prop_ReinforceLaw", "Prop_TickLowers"], 4)]
    results = {}
    with concurrent.futures.ThreadPoolExecutor(max_workers=4) as ex:
        futs = [ex.submit(tlc, chk, n, s, c, i, p, w, 1800) for n, s, c, i, p, w in jobs]
        for f in futs:
            name, r = f.result()
            results[name] = r
    for name, _, _, _, _, _ in jobs:
        r = results[name]
        chk.add_tlc(name, r)
        if r.violated or not r.ok:
            chk.infra.append("TLC rejected %s (%s): the specification contradicts its own laws -- a spec error, not a finding:\n%s" % (
                name, r.violated, "\n".join(r.trace[-2:])[:2000]))
        if not r.corpus:
            raise Infra("%s produced no corpus:\n%s" % (name, r.raw_tail))
    if chk.infra:
        return chk.finish()
    fn_recs = sorted(results["Decay_fn"].corpus, key=lambda r: json.dumps(r["fam"], sort_keys=True))
    by_fam = {json.dumps(r["fam"], sort_keys=True): r for r in results["Decay_mem"].corpus}
    n_override = len(results["Decay_override"].corpus)
    for r in results["Decay_override"].corpus:
        by_fam.setdefault(json.dumps(r["fam"], sort_keys=True), r)
    mem_recs = [by_fam[k] for k in sorted(by_fam)]
    behs, n_rein_states = vlib.behaviours_from_corpus(results["Decay_reinforce"].corpus, max_behaviours=400 if quick else None, rng=rng,
                                                      need=lambda ops: any(o["op"] == "Reinforce" for o in ops))
    # 2. white-box: every SpecFn state on the unexported functions
    evaluations = 0
    wb = run_whitebox(fn_recs)
    if len(wb["vals"]) != len(fn_recs):
        raise Infra("white-box test evaluated %d of %d families" % (len(wb["vals"]), len(fn_recs)))
    wb_points = 0
    for rec, vals, sims in zip(fn_recs, wb["vals"], wb["sims"]):
        n, divs = judge_whitebox(rec, vals, sims)
        evaluations += n
        wb_points += len(vals)
        for dv in divs[:3]:
            report(chk, dv, {"property": PROP, "checker": "whitebox", "record": rec, "divergence": dv})
    # 3. black-box: every SpecMem state (a family) and the Reinforce behaviours on a real engine
    items = {}
    for i, rec in enumerate(mem_recs):
        gid = "f%d" % i
        items[gid] = ("family", rec, family_group(rec, gid, rng))
    for i, beh in enumerate(behs):
        gid = "r%d" % i
        items[gid] = ("behaviour", beh, behaviour_group(beh, gid, rng))
    res = run_blackbox([g for _, _, g in items.values()])
    for e in res.get("errors", []):
        chk.infra.append("black-box harness error: " + e)
    n, divmap, seen = judge_groups(items, res)
    evaluations += n
    if len(seen) != len(items) and not chk.infra:
        chk.infra.append("black-box harness returned %d of %d groups" % (len(seen), len(items)))
    # A divergence whose value is exactly what a modelled deviation of the code predicts is
    # deterministic.  Any other divergence counts only if it shows again on a fresh run of the
    # same group (a wall-clock glitch must not produce a finding).
    if divmap:
        again = [items[g][2] for g, divs in divmap.items() if any(not d.get("dev") for d in divs)]
        divmap2 = {}
        if again:
            _, divmap2, _ = judge_groups(items, run_blackbox(again))
        chk.cov["groups_rerun_to_confirm"] = len(again)
        for gid, divs in divmap.items():
            sig2 = {(d["kind"], d["op"]) for d in divmap2.get(gid, [])}
            kept = [d for d in divs if d.get("dev") or (d["kind"], d["op"]) in sig2]
            shown = set()
            for dv in kept:
                sig = (dv["kind"], dv["op"], dv.get("dev"))
                if sig in shown:
                    continue
                shown.add(sig)
                kind, rec, group = items[gid]
                report(chk, dv, {"property": PROP, "checker": "blackbox", "kind": kind, "record": rec, "group": group, "divergence": dv})
    fam_nontrivial = sum(1 for r in mem_recs if r["decays"])
    n_mems = sum(len(r["members"]) for r in mem_recs)
    chk.cov["traces_validated_against_impl"] = len(fn_recs) + len(seen)
    chk.cov["evaluations"] = evaluations
    chk.cov["distinct_nontrivial"] = fam_nontrivial + len(behs) + sum(1 for r in fn_recs if r["fam"]["hl"] > 0)
    chk.cov["exhaustive"] = not quick
    chk.cov["impl_cases"] = {"whitebox_families": len(fn_recs), "whitebox_grid_points": wb_points, "whitebox_function_calls": wb.get("evals", 0),
                             "blackbox_families": len(mem_recs), "blackbox_memories": n_mems, "override_product_families": n_override,
                             "reinforce_states": n_rein_states, "reinforce_behaviours_replayed": len(behs),
                             "reinforce_steps": sum(len(b["steps"]) for b in behs)}
    chk.cov["rule"] = ("every TLC state is one implementation test: SpecFn states -> unexported decay functions (go test -overlay); "
                       "SpecMem states -> a family of twin memories (ages x access counts) in a real engine index, observed through "
                       "VSearchWithScores/VSearchGraph/VSearch; SpecReinf -> leaves of the behaviour tree containing a Reinforce%s, replayed "
                       "with VReinforce/VGet.  non-trivial = family that decays (not pinned/disabled/no-decay layer), function family with a "
                       "positive half-life, behaviour with a reinforcement" % (" (400 seeded)" if quick else " (all)"))
    chk.cov["samples"] = [fn_recs[0]["fam"], mem_recs[len(mem_recs) // 2]["fam"]] + [[s["op"] for s in b["steps"]] for b in behs[:2]]
    chk.assumptions += [
        "ages are placed in whole seconds at multiples of half the applicable half-life (>= 3600 s in the black-box grid), so a wall-clock drift of seconds cannot move a memory to another case; the remaining drift is bounded by the measured elapsed time (tolerance (drift+1 s)/half-life on continuous models)",
        "_created_at is positive (the engine treats a timestamp <= 0 as 'not set'); 'huge' is 10^9 s",
        "_access_count is supplied as float64 in the families (the type VReinforce writes and JSON decoding yields); the reinforce behaviours also start from int / int64 counts",
        "an unknown model name and Ebbinghaus are constrained by the universal laws and the order constraints only (no real-valued identity)",
        "a per-memory _decay_model of \"\" means 'not set'",
        "Tick(d) is realised by moving _created_at and _last_accessed of every memory d seconds into the past (VSetMetadata)",
    ]
    return chk.finish()


MAX_PER_SIGNATURE = 6


def report(chk, dv, replay_obj):
    """One divergence observed on the real code: a known finding (exact signature) or a violation.
    Only the first few replay files per signature are written; all are counted."""
    tally = chk.cov.setdefault("divergences", {})
    if dv["kind"] == "missing_result":
        # the approximate index did not return a memory at all: nothing was observed (recall is C06/C07's business)
        tally["unobserved"] = tally.get("unobserved", 0) + 1
        if tally["unobserved"] == 1:
            chk.infra.append("vacuous observation: " + dv["detail"][:600])
        return
    kf = vlib.match_known(PROP, dv)
    if kf:
        key = "known %s" % kf["id"]
        tally[key] = tally.get(key, 0) + 1
        if tally[key] == 1:
            chk.known.append((kf["id"], kf["what"]))
        return
    key = "VIOLATION %s at %s%s" % (dv["kind"], dv["op"], (" deviation=" + dv["dev"]) if dv.get("dev") else "")
    tally[key] = tally.get(key, 0) + 1
    if tally[key] <= MAX_PER_SIGNATURE:
        chk.violation("%s at %s: %s" % (dv["kind"], dv["op"], dv["detail"]), replay_obj)


def replay_file(path):
    with open(path) as f:
        rec = json.load(f)
    if rec.get("checker") == "whitebox":
        wb = run_whitebox([rec["record"]])
        n, divs = judge_whitebox(rec["record"], wb["vals"][0], wb["sims"][0])
    else:
        res = run_blackbox([rec["group"]])
        for e in res.get("errors", []):
            raise Infra("black-box harness error: " + e)
        items = {rec["group"]["id"]: (rec["kind"], rec["record"], rec["group"])}
        n, divmap, _ = judge_groups(items, res)
        divs = divmap.get(rec["group"]["id"], [])
        print(json.dumps({"observed": res.get("obs", [])}, indent=1)[:6000])
    print(json.dumps({"evaluations": n, "divergences": divs[:20]}, indent=1))
    if divs:
        print("VIOLATION property=%s replay=%s" % (PROP, path))
        return vlib.EXIT_VIOLATION
    print("replay: no divergence on the current tree")
    return vlib.EXIT_OK


if __name__ == "__main__":
    if len(sys.argv) > 2 and sys.argv[1] == "--replay":
        vlib.main_wrapper(lambda: replay_file(sys.argv[2]))
    tier = sys.argv[1] if len(sys.argv) > 1 else os.environ.get("VERIF_TIER", "quick")
    vlib.main_wrapper(lambda: run(tier))
