#!/usr/bin/env python3
"""C16 - Authentication and role/namespace checks cannot be bypassed.

spec/Auth.tla is (1) the request product  token x route shape x target x resource-name class x
body shape  with the policy of the property and a reference monitor, and (2) the restart machine
(issue / revoke / snapshot / log compaction / restart over journal + snapshot).  TLC checks both
and emits every case / history with the outcome the server has to show (CORPUS channel).

Binding (harness/cmd/vauth): the real server.NewServer handler chain on a real engine in a temp
dir.  Concrete routes are read from the mux registrations of the CURRENT tree and mapped to the
classes of the spec; every TLC case is sent as concrete requests with real tokens (minted by the
server, then manipulated) and judged by status class AND engine state delta; every TLC history is
replayed with real restarts (close + reopen on the same data dir, /system/save, /system/aof-rewrite).
"""
import json, os, random, re, subprocess, sys, time
sys.path.insert(0, os.path.dirname(os.path.abspath(__file__)))
import vlib
from vlib import Check, make_cfg, run_tlc, Infra

PROP = "C16"
REF = {"AdminUnchecked": "FALSE", "SuffixRole": "FALSE", "BodyFieldOnly": "FALSE", "PathSplit": "FALSE", "KvOpen": "FALSE",
       "ExactKeys": "FALSE", "Unjournaled": "FALSE", "VerifyCache": "FALSE", "Tids": '{"t1", "t2"}', "MaxOps": 4}
INV_CASES = ["Inv_Safe", "Inv_Live", "Inv_OnlyAuthentic", "Inv_ReadNeverMutates", "Inv_WriteNeverAdmin", "Inv_NsNeverOther"]
INV_HIST = ["Inv_RevokedStaysRevoked", "Inv_ExpiredStaysExpired", "Inv_IssuedKeepsWorking", "Inv_KeyStable"]
HIST_FLAGS = ("Unjournaled", "VerifyCache")
# letter-case variants of the body fields index_name / source_index / target_index
SPELLINGS = ["Index_Name", "INDEX_NAME", "index_Name"]
# words middleware.go special-cases at the pinned commit (the current tree's list is parsed and united with it)
PINNED_WORDS = ["search", "search-with-scores", "get-vectors", "get-links", "get-incoming", "traverse",
                "extract-subgraph", "search-nodes", "get-node-properties", "get-edges", "get-all-relations",
                "get-all-incoming", "find-path"]
# the deviations of the pinned tree, one flag each, for the diagnostic TLC runs
DEVIATIONS = {"AdminUnchecked": "HasAccess compares the required role only when it is 'write'",
              "SuffixRole": "required role from method + path suffix", "KvOpen": "reserved _sys_auth:: keys served as plain KV",
              "BodyFieldOnly": "namespace of a POST body = its index_name field", "PathSplit": "namespace = 4th piece of the decoded path",
              "ExactKeys": "index fields of a body looked up by exact lower-case key while handlers match case-insensitively",
              "Unjournaled": "signing key / revocation markers not journaled",
              "VerifyCache": "verified-token cache that only re-checks the revocation list (expiry not re-checked)"}


def case_id(c):
    t, s = c["tok"], c["shape"]
    return "%s.%s.%s.%s|%s.%s.%s.%s|%s|%s|%s" % (t["kind"], t["role"], t["ns"], t["state"], s["class"], s["method"], s["src"],
                                                s["tail"], c["target"], c["name"], c["body"])


def shape_key(s):
    return "%s/%s/%s/%s" % (s["class"], s["method"], s["src"], s["tail"])


def special_words():
    words = list(PINNED_WORDS)
    try:
        src = open(os.path.join(vlib.REPO, "internal", "server", "middleware.go")).read()
        for w in re.findall(r'strings\.HasSuffix\(\s*path\s*,\s*"([^"]+)"\s*\)', src):
            w = w.strip("/")
            if w and w not in words and "/" not in w:
                words.append(w)
    except OSError:
        pass
    return words


def inventory(binary):
    p = subprocess.run([binary, "routes", "-repo", vlib.REPO], capture_output=True, text=True, timeout=120)
    if p.returncode != 0:
        raise Infra("vauth routes failed: " + p.stderr[-2000:])
    inv = json.loads(p.stdout)
    if inv.get("unmapped"):
        raise Infra("harness outdated: routes registered by the current tree that tools/check_C16 does not know: %s "
                    "(add them to harness/cmd/vauth/table.go with their class)" % ", ".join(inv["unmapped"]))
    if len(inv.get("registered") or []) < 20:
        raise Infra("harness outdated: only %d mux registrations found under internal/server" % len(inv.get("registered") or []))
    return inv


def model_check(chk, name, spec, consts, invs, constraint=None, timeout=600, workers=4):
    r = run_tlc("Auth", name + ".cfg", cfg_text=make_cfg(spec, consts, invs, constraint=constraint), workers=workers, timeout=timeout)
    chk.add_tlc(name, r)
    if r.violated:
        chk.infra.append("TLC: %s violated by the reference design in %s:\n%s" % (r.violated, name, "\n".join(r.trace[-2:])[:2000]))
    return r


def diagnostics(chk):
    """One TLC run per deviation of the pinned tree: the design-level counterexample of each finding."""
    out = []
    for flag, what in DEVIATIONS.items():
        consts = dict(REF, **{flag: "TRUE"})
        if flag in HIST_FLAGS:
            cfg = make_cfg("SpecHist", consts, INV_HIST, constraint="BoundHist")
        else:
            cfg = make_cfg("SpecCases", consts, INV_CASES)
        try:
            r = run_tlc("Auth", "Auth_diag_%s.cfg" % flag, cfg_text=cfg, workers=2, timeout=300)
        except Infra as e:
            out.append({"deviation": flag, "error": str(e)[:300]})
            continue
        out.append({"deviation": flag, "meaning": what, "violated": r.violated, "wall_s": round(r.wall, 1),
                    "counterexample": (r.trace[-1] if r.trace else (r.error or ""))[:1200]})
    return out


def pick_cases(corpus, tier, rng):
    for c in corpus:
        c["id"] = case_id(c)
    corpus.sort(key=lambda c: c["id"])
    if tier != "quick":
        return corpus
    keep = [c for c in corpus if c["why"] != "auth"]            # every served / open / role / ns / reserved case
    authd = [c for c in corpus if c["why"] == "auth"]
    keep += rng.sample(authd, min(len(authd), 1500))
    keep.sort(key=lambda c: c["id"])
    return keep


def judge(chk, divs, checker, profile, behaviours=None):
    bmap = {b["id"]: b for b in (behaviours or [])}
    reported = 0
    for d in divs:
        beh = bmap.get(d.get("id"))
        kf = vlib.match_known(PROP, d, beh)
        if kf:
            chk.known.append((kf["id"], kf["what"]))
            chk.cov.setdefault("known_finding_hits", {})
            chk.cov["known_finding_hits"][kf["id"]] = chk.cov["known_finding_hits"].get(kf["id"], 0) + 1
            continue
        reported += 1
        if reported > 40:
            continue
        if checker == "hist":
            what = "%s at step %d of history [%s]\n%s" % (d["kind"], d["step"], (d.get("diff") or ["?"])[0], d.get("detail", ""))
            chk.violation(what, {"property": PROP, "checker": "hist", "profile": profile, "behaviour": beh, "divergence": d})
        else:
            rq = d.get("request") or {}
            what = "%s: %s %s -> %d\n%s\n%s" % (d["kind"], rq.get("method"), rq.get("path"), d.get("status", 0), d.get("detail", ""),
                                                "\n".join(d.get("diff") or []))
            chk.violation(what, {"property": PROP, "checker": checker, "profile": profile, "case": d.get("case"), "divergence": d})
    return reported


def run(tier):
    chk = Check(PROP, tier)
    quick = tier == "quick"
    phases = {}
    t_mark = [time.time()]

    def mark(name):
        now = time.time()
        phases[name] = round(now - t_mark[0], 1)
        t_mark[0] = now
    rng = random.Random(vlib.seed())
    binary = vlib.build_harness(cmd="vauth")
    inv = inventory(binary)
    words = special_words()
    mark("build+inventory")

    # ---- 1. TLC: request product and restart machine of the reference design
    rc = model_check(chk, "Auth_cases", "SpecCasesEmit", REF, INV_CASES)
    max_ops = 4 if quick else 5
    rh = model_check(chk, "Auth_hist", "SpecHistEmit", dict(REF, MaxOps=max_ops), INV_HIST, constraint="BoundHist")
    if not rc.corpus or not rh.corpus:
        raise Infra("TLC emitted no corpus:\n" + rc.raw_tail[-1500:] + rh.raw_tail[-1500:])
    spec_shapes = {shape_key(c["shape"]) for c in rc.corpus}
    missing = sorted(set(inv["shapes"]) - spec_shapes)
    if missing:
        raise Infra("spec/Auth.tla and harness/cmd/vauth/table.go disagree: shapes without cases: %s" % missing)
    unbound = sorted(spec_shapes - set(inv["shapes"]))
    mark("tlc")

    # ---- 2. request cases on the real server
    cases = pick_cases(rc.corpus, tier, rng)
    if quick:
        wsel = ["search"] + rng.sample([w for w in words if w != "search"], 2)
    else:
        wsel = words
    spell = [SPELLINGS[vlib.seed() % len(SPELLINGS)]] if quick else SPELLINGS
    profile = {"repo": vlib.REPO, "seed": vlib.seed(), "words": wsel, "spellings": spell, "routes_per_shape": 1 if quick else 0,
               "skip_slow": True, "byte_positions": 6 if quick else 0}
    order = {"benign": 0, "reserved": 0, "reservedenc": 0, "encoded": 1, "slash": 2, "readword": 3}
    cases.sort(key=lambda c: (order.get(c["name"], 9), c["id"]))
    res = vlib.run_sharded(binary, "cases", profile, cases, payload_key="cases", timeout=1500)
    for e in res.get("errors", []):
        chk.infra.append("case replay: " + e)
    n_req = res.get("requests", 0)
    divs = res.get("divergences", [])
    judge(chk, divs, "cases", profile)
    mark("cases")

    # ---- 3. restart histories on a real data directory
    def names(ops):
        return [o["op"] for o in ops]

    def need_restart(ops):
        n = names(ops)
        return "Restart" in n and ("Issue" in n or "IssueShort" in n) and "Expire" not in n

    def need_expire(ops):
        return "Expire" in names(ops)

    behaviours, n_hist_states = vlib.behaviours_from_corpus(rh.corpus, max_behaviours=160 if quick else 4000, rng=rng, need=need_restart)
    # histories in which a short-lived token is used, expires (real waiting, ~3 s each) and is used again,
    # in the same process and across restarts; each runs in its own slot so the waits overlap
    n_exp = 16 if quick else 160
    expiring, _ = vlib.behaviours_from_corpus(rh.corpus, max_behaviours=n_exp, rng=rng, need=need_expire)
    for i, b in enumerate(expiring):
        b["id"] = "x%d" % i
    if not quick:
        # longer histories: random walks of the same machine
        cfg = make_cfg("SpecHistEmit", dict(REF, MaxOps=9), [], constraint="BoundHist")
        rw = run_tlc("Auth", "Auth_walks.cfg", cfg_text=cfg, workers=1, timeout=300, simulate=400, depth=10, seed_=vlib.seed())
        chk.cov["tlc_runs"].append({"config": "Auth_walks", "mode": "simulate", "walks": 400, "depth": 10,
                                    "corpus_records": len(rw.corpus), "wall_s": round(rw.wall, 1)})
        b2, _ = vlib.behaviours_from_corpus(rw.corpus, max_behaviours=400, rng=rng, need=need_restart)
        for i, b in enumerate(b2):
            b["id"] = "w%d" % i
        behaviours += b2
    kinds = {"log_only": 0, "after_snapshot": 0, "after_compaction": 0}
    for b in behaviours:
        ops = [s_["op"]["op"] for s_ in b["steps"]]
        for i, o in enumerate(ops):
            if o == "Restart":
                prev = ops[i - 1] if i else ""
                kinds["after_snapshot" if prev == "Save" else "after_compaction" if prev == "Rewrite" else "log_only"] += 1
    hres = vlib.run_sharded(binary, "hist", profile, behaviours, timeout=1500)
    xres = vlib.run_sharded(binary, "hist", profile, expiring, timeout=1500, shards=16)
    for e in hres.get("errors", []) + xres.get("errors", []):
        chk.infra.append("history replay: " + e)
    for k in ("checks", "restarts", "behaviours", "steps"):
        hres[k] = hres.get(k, 0) + xres.get(k, 0)
    hres["divergences"] = hres.get("divergences", []) + xres.get("divergences", [])
    behaviours = behaviours + expiring
    judge(chk, hres["divergences"], "hist", profile, behaviours)
    if xres.get("expired_used", 0) == 0:
        chk.infra.append("vacuous: no token was presented after its expiry (%d expiring histories, %d probes skipped for timing)"
                         % (len(expiring), xres.get("timing_skips", 0)))
    mark("histories")

    # ---- 4. every-byte tampering of a real token
    sres = vlib.run_sharded(binary, "sweep", profile, [0], payload_key="sweeps", shards=1, timeout=600)
    for e in sres.get("errors", []):
        chk.infra.append("token sweep: " + e)
    judge(chk, sres.get("divergences", []), "sweep", profile)
    mark("sweep")

    # ---- 5. coverage / vacuity
    effective = sorted(set(res.get("effective", [])))
    ineffective = sorted(set(res.get("ineffective", [])))
    if n_req == 0 or res.get("served_2xx", 0) == 0 or res.get("denied", 0) == 0:
        chk.infra.append("vacuous: %d requests, %d served, %d denied" % (n_req, res.get("served_2xx", 0), res.get("denied", 0)))
    if len(effective) < 15:
        chk.infra.append("vacuous: only %d mutation routes were seen to change the engine state with an accepted token "
                         "(the state delta would not detect a bypass): %s / ineffective: %s" % (len(effective), effective, ineffective))
    if hres.get("restarts", 0) == 0:
        chk.infra.append("vacuous: no restart was replayed")
    nontrivial = sum(1 for c in cases if c["why"] != "auth")
    chk.cov["traces_validated_against_impl"] = len(cases) + len(behaviours)
    chk.cov["evaluations"] = n_req + hres.get("checks", 0) + sres.get("requests", 0)
    chk.cov["distinct_nontrivial"] = nontrivial + len(behaviours)
    chk.cov["exhaustive"] = not quick
    chk.cov["rule"] = ("request product: TLC enumerates token(58) x route shape x target x resource-name class x body shape (%d cases, all %s); "
                       "each case is sent to %s concrete route(s) of its shape, name class 'readword' instantiated with %d word(s); verdict = "
                       "status class (401/403 vs passed the middleware) AND engine state delta AND other-namespace marker in the response. "
                       "restart machine: leaves of the prefix tree of TLC's histories containing an Issue and a Restart (%s), every token probed after every step"
                       % (len(rc.corpus), "replayed" if not quick else "non-auth cases + a seeded sample of 1500 unauthenticated ones replayed",
                          "every" if not quick else "one seeded", len(wsel), "all, MaxOps=%d, plus 400 random walks of depth 10" % max_ops if not quick else "seeded sample of 160, MaxOps=%d" % max_ops))
    chk.cov["samples"] = [cases[0]["id"], cases[len(cases) // 2]["id"], cases[-1]["id"]] + [[s["op"] for s in b["steps"]] for b in behaviours[:2]]
    chk.cov["requests"] = {"cases_replayed": len(cases), "case_requests": n_req, "denied_401_403": res.get("denied", 0),
                           "served_2xx": res.get("served_2xx", 0), "passed_middleware_non_2xx": res.get("passed_no_2xx", 0),
                           "state_changed": res.get("state_changed", 0), "outcome_open": res.get("outcome_any", 0),
                           "world_rebuilds": res.get("rebuilds", 0), "slow_handlers_skipped": res.get("skipped_slow", 0),
                           "histories": len(behaviours), "history_probes": hres.get("checks", 0), "restarts": hres.get("restarts", 0), "restart_kinds": kinds,
                           "expiring_histories": len(expiring), "expiry_waits": xres.get("expiries", 0),
                           "probes_after_expiry": xres.get("expired_used", 0), "expiry_wait_ms_total": xres.get("waited_ms", 0),
                           "probes_skipped_too_close_to_expiry": xres.get("timing_skips", 0) + hres.get("timing_skips", 0),
                           "body_field_spellings": spell,
                           "sweep_requests": sres.get("requests", 0), "divergences_cases": len(divs),
                           "divergences_hist": len(hres.get("divergences", [])), "divergences_sweep": len(sres.get("divergences", []))}
    chk.cov["routes"] = {"registered": len(inv["registered"]), "mapped_shapes": len(inv["shapes"]), "spec_shapes_without_route": unbound,
                         "no_longer_registered": inv.get("gone") or [], "mutation_routes_effective": effective,
                         "mutation_routes_ineffective_with_root": ineffective, "read_words": wsel}
    if not quick:
        chk.cov["diagnostic_deviation_runs"] = diagnostics(chk)
    mark("diagnostics")
    chk.cov["phase_wall_s"] = phases
    chk.assumptions += [
        "admin role and root token are global by design (rbac.go HasAccess): an admin token with a namespace list is not namespace restricted",
        "routes whose index cannot be determined by a middleware (query parameter, pipeline name, none) may be refused to namespace-restricted tokens; "
        "pure reads the server gates behind the write role (get-connections, get-evolution, belief-assessment, retrieve-adaptive, compile/validate) may be refused to read tokens (outcome 'any')",
        "a request that passed the middleware but got a non-2xx answer from the handler is judged by state delta and response content only",
        "the handler chain is called in process (httptest request, no TCP); patterns registered without a method are exercised with GET; "
        "/rag/* is exercised without a configured pipeline; the 1 s profile/trace handlers are run only with the root token",
        "restart = Engine.Close + Open + NewServer on the same directory (clean stop); crash restarts are not modelled",
    ]
    return chk.finish()


def replay_file(path):
    rec = json.load(open(path))
    binary = vlib.build_harness(cmd="vauth")
    checker = rec.get("checker", "cases")
    if checker == "hist":
        res = vlib.run_sharded(binary, "hist", rec["profile"], [rec["behaviour"]], shards=1)
    elif checker == "sweep":
        res = vlib.run_sharded(binary, "sweep", rec["profile"], [0], payload_key="sweeps", shards=1)
    else:
        res = vlib.run_sharded(binary, "cases", rec["profile"], [rec["case"]], payload_key="cases", shards=1)
    divs = res.get("divergences", [])
    print(json.dumps({"checker": checker, "errors": res.get("errors", []), "divergences": divs}, indent=1)[:6000])
    if res.get("errors"):
        print("INFRA: " + "; ".join(res["errors"]), file=sys.stderr)
        return vlib.EXIT_INFRA
    if divs:
        print("VIOLATION property=%s replay=%s" % (PROP, path))
        return vlib.EXIT_VIOLATION
    print("replay: no divergence on the current tree")
    return vlib.EXIT_OK


if __name__ == "__main__":
    if len(sys.argv) > 2 and sys.argv[1] == "--replay":
        vlib.main_wrapper(lambda: replay_file(sys.argv[2]))
    tier = sys.argv[1] if len(sys.argv) > 1 else os.environ.get("VERIF_TIER", "quick")
    vlib.main_wrapper(lambda: run(tier))
