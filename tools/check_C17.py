#!/usr/bin/env python3
"""C17 -- the AI gateway blocks what it must block and caches only what matches.

1. TLC checks spec/Gateway.tla: the documented request pipeline (design) against the requirement
   (Blocked <=> firewall on /\\ (pattern \\/ closer than the threshold) whatever else the message
   contains; hit <=> cache on /\\ not streaming /\\ a fresh entry within the cache distance; refused
   requests and hits never reach upstream; invalidation removes exactly the citing entries), plus
   sensitivity canaries: each suspected deviation switched on in the design must be caught by TLC.
2. TLC emits histories (transition cover of the abstract state graph + seeded random walks) with
   the required outcome of every step.
3. harness/cmd/vgateway replays every history on a real proxy.AIProxy (real engine indexes, both
   metrics, gateway-created and operator-created cache index, stub embedder/upstream/rewriter) and
   compares status, upstream hit count, served body and cache index contents step by step.
"""
import json, os, random, subprocess, sys, threading, time
sys.path.insert(0, os.path.dirname(os.path.abspath(__file__)))
import vlib
from vlib import Check, make_cfg, run_tlc, Infra

PROP = "C17"
MODULE = "MC_Gateway"

BASE = {
    "Coord": "<- c_Coord", "DocCoord": "<- c_DocCoord", "DocTokens": "<- c_TokSimple", "DocInside": "<- c_InsideNested",
    "ThrF": "<- c_ThrF", "ThrC": "<- c_ThrC", "RagR": "<- c_RagR",
    "Cfgs": "<- c_CfgsAll", "Reqs": "<- c_ReqsAll", "Seeds": "<- c_Seeds", "InvDocs": "<- c_InvDocs",
    "MaxOps": 4, "MaxTicks": 1, "EmitFrom": 0,
    "K_MarkerFirst": "FALSE", "K_ScoreIsSimilarity": "FALSE", "K_NearestOnly": "FALSE", "K_Inval": '"exact"',
}
INVS = ["Inv_Steps", "Inv_UpCount", "Inv_CacheOrigin"]
PROPS = ["Prop_Steps", "Prop_UpCount", "Prop_CacheChange", "Prop_InvalExact"]

# deviation switched on in the design model -> the property TLC must report as violated
CANARIES = [
    # (a wrong step that also changes the state violates the invariant and the action property; TLC reports whichever it evaluates first)
    ("marker_first", {"K_MarkerFirst": "TRUE"}, ("Prop_Steps", "Inv_Steps")),
    ("score_is_similarity", {"K_ScoreIsSimilarity": "TRUE"}, ("Prop_Steps", "Inv_Steps")),
    ("nearest_only", {"K_NearestOnly": "TRUE"}, ("Prop_Steps", "Inv_Steps")),
    ("inval_noop", {"K_Inval": '"noop"'}, ("Prop_InvalExact",)),
    ("inval_token", {"K_Inval": '"token"', "DocTokens": "<- c_TokPath"}, ("Prop_InvalExact",)),
    ("inval_substring", {"K_Inval": '"substring"'}, ("Prop_InvalExact",)),
]

# concrete configurations the histories are replayed in
PROFILES = [
    {"metric": "cosine", "cache_index": "auto", "id_style": "nested", "fw_empty": "empty"},
    {"metric": "cosine", "cache_index": "pre", "id_style": "path", "fw_empty": "missing"},
    {"metric": "euclidean", "cache_index": "pre", "id_style": "nested", "fw_empty": "empty"},
    {"metric": "euclidean", "cache_index": "pre", "id_style": "path", "fw_empty": "missing"},
    {"metric": "cosine", "cache_index": "auto", "id_style": "path", "fw_empty": "missing"},
    {"metric": "cosine", "cache_index": "pre", "id_style": "nested", "fw_empty": "empty"},
]


def binary():
    # VERIF_GATEWAY_BIN: a prebuilt harness (e.g. built against a patched copy of the repository) instead of building from /repo
    return os.environ.get("VERIF_GATEWAY_BIN") or vlib.build_harness(cmd="vgateway")


# ---------------------------------------------------------------------------- TLC

def model_check(chk, name, consts, timeout):
    cfg = make_cfg("Spec", consts, INVS, PROPS, view="View")
    r = run_tlc(MODULE, name + ".cfg", cfg_text=cfg, timeout=timeout)
    chk.add_tlc(name, r)
    if r.violated:
        chk.infra.append("TLC: %s violated by the design model of %s (specification error or a design-level counterexample):\n%s" % (
            r.violated, name, "\n".join(r.trace[-2:])[:3000]))
    return r


def canaries(chk, names, timeout=300):
    """every deviation a reader suspects in the code, switched on in the design model, must be caught"""
    out = {}

    def one(name, over, want):
        consts = dict(BASE, MaxOps=3)
        consts.update(over)
        cfg = make_cfg("Spec", consts, INVS, PROPS, view="View")
        try:
            out[name] = (run_tlc(MODULE, "canary_%s.cfg" % name, cfg_text=cfg, timeout=timeout, workers=2), want)
        except Infra as e:
            out[name] = (e, want)

    ts = [threading.Thread(target=one, args=c) for c in CANARIES if c[0] in names]
    for t in ts:
        t.start()
    for t in ts:
        t.join()
    caught = []
    for name, (r, want) in sorted(out.items()):
        if isinstance(r, Exception):
            chk.infra.append("canary %s: %s" % (name, r))
            continue
        chk.cov["tlc_runs"].append({"config": "canary_" + name, "expected_violation": "|".join(want), "violated": r.violated,
                                    "distinct_states": r.distinct, "wall_s": round(r.wall, 1)})
        if r.violated not in want:
            chk.infra.append("sensitivity canary %s: TLC was expected to report %s, reported %s -- the properties are vacuous for this deviation\n%s" % (
                name, " or ".join(want), r.violated, r.raw_tail[-800:]))
        else:
            caught.append(name)
    return caught


def corpus(chk, name, consts, view="ViewT", simulate=None, depth=None, timeout=900, workers=None):
    cfg = make_cfg("SpecCorpus", consts, [], [], view=None if simulate else view)
    # one worker: with a VIEW that hides the history, which history reaches a state first (and whether it
    # still has steps left within MaxOps) must not depend on the interleaving of workers
    r = run_tlc(MODULE, name + ".cfg", cfg_text=cfg, timeout=timeout, workers=workers or 1,
                simulate=simulate, depth=depth, seed_=vlib.seed() if simulate else None)
    if simulate:
        chk.cov["tlc_runs"].append({"config": name, "mode": "simulate", "walks": simulate, "depth": depth,
                                    "corpus_records": len(r.corpus), "wall_s": round(r.wall, 1)})
    else:
        chk.add_tlc(name, r)
    if not r.corpus:
        raise Infra("corpus run %s produced no histories:\n%s" % (name, r.raw_tail))
    geom = (r.printed.get("GEOM") or [None])[0]
    if not geom:
        raise Infra("corpus run %s did not print the geometry table" % name)
    return r.corpus, geom


def leaves(records):
    """records are prefix closed; the maximal ones are the histories to replay"""
    key = lambda cfg, ops: json.dumps(cfg, sort_keys=True) + "|" + json.dumps([strip(o) for o in ops], sort_keys=True)
    table, prefixes = {}, set()
    for r in records:
        table[key(r["cfg"], r["ops"])] = r
    for r in table.values():
        for i in range(len(r["ops"])):
            prefixes.add(key(r["cfg"], r["ops"][:i]))
    out = [r for k, r in table.items() if k not in prefixes and r["ops"]]
    out.sort(key=lambda r: key(r["cfg"], r["ops"]))
    return out


def strip(o):
    return {k: o[k] for k in ("op", "pos", "pat", "mark", "stream", "rag", "src", "fresh", "doc") if k in o}


def stratum(r):
    """class of a history for stratified sampling: configuration x what its last two steps exercise"""
    def cls(o):
        if o["op"] == "Req":
            return ("Req", tuple(o["accept"]), o["dFw"], o["dCache"], o["pat"], o["mark"], o["stream"], bool(o["servable"]), o.get("shadow", False))
        if o["op"] == "Inval":
            return ("Inval", o["doc"], bool(o["gone"]), tuple(sorted(o.get("others") or [])))
        if o["op"] == "Seed":
            return ("Seed", o["fresh"], bool(o["src"]))
        return ("Tick",)
    ops = r["ops"]
    c = r["cfg"]
    return (c["fw"], c["cache"], bool(c["forb"]), cls(ops[-1]), cls(ops[-2])[0] if len(ops) > 1 else "")


def critical(h):
    """situations in which a near-miss implementation differs from the requirement only here:
    (a) a hit that must be served although an expired entry lies at least as near as every servable one
        (a lookup that inspects the nearest entry only);
    (b) an invalidation that must spare answers citing only OTHER documents (any inexact match of ids:
        shared tokens, substrings)"""
    for o in h["ops"]:
        if o["op"] == "Req" and o.get("shadow") and o["accept"] == ["hit"] and not o["mark"]:
            return ("shadowed_hit", o["pos"], tuple(sorted(e["pos"] for e in o["cache"] if not e["fresh"])))
        if o["op"] == "Inval" and o.get("others"):
            return ("inval_spares", o["doc"], tuple(sorted(o["others"])), bool(o["gone"]))
    return None


def sample(rng, hs, n, n_critical=None):
    """round robin over the strata so that rare situations (hits on expired neighbours, non-empty
    invalidations, threshold cases) are present in every sample; the critical situations first"""
    if len(hs) <= n:
        return list(hs)
    out, taken = [], set()
    crit = {}
    for i, h in enumerate(hs):
        c = critical(h)
        if c:
            crit.setdefault(c, []).append(i)
    quota = n // 3 if n_critical is None else n_critical
    keys = sorted(crit, key=repr)
    for k in keys:
        rng.shuffle(crit[k])
    while len(out) < quota and any(crit[k] for k in keys):
        for k in keys:
            if crit[k] and len(out) < quota:
                i = crit[k].pop()
                out.append(hs[i])
                taken.add(i)
    groups = {}
    for i, h in enumerate(hs):
        if i not in taken:
            groups.setdefault(stratum(h), []).append(h)
    keys = sorted(groups, key=repr)
    for k in keys:
        rng.shuffle(groups[k])
    while len(out) < n:
        progressed = False
        for k in keys:
            if groups[k] and len(out) < n:
                out.append(groups[k].pop())
                progressed = True
        if not progressed:
            break
    return out


def uses_T(h):
    return any(o.get("pos") == "T" for o in h["ops"])


# ---------------------------------------------------------------------------- replay

def replay(chk, histories, profile, geom):
    prof = dict(profile, geom=geom)
    hs = [h for h in histories if not (profile["metric"] == "cosine" and uses_T(h))]
    res = vlib.run_sharded(binary(), "replay", prof, hs, payload_key="histories", timeout=1500)
    for e in res.get("errors", []) or []:
        chk.infra.append("replay (%s): %s" % (profile_name(profile), e))
    return res, hs


def profile_name(p):
    return "%s/%s/%s/%s" % (p["metric"], p["cache_index"], p["id_style"], p["fw_empty"])


def judge(chk, res, hs, profile, stats):
    """attribute every divergence: explained by open known findings -> KNOWN-FINDING, otherwise VIOLATION"""
    hmap = {h["id"]: h for h in hs}
    for div in res.get("divergences", []) or []:
        alts = div.get("explain") or []      # minimal sets of code deviations that reproduce the observed outcome
        label = div["kind"] + ("<-" + "|".join("+".join(a) for a in alts) if alts else "")
        stats["divergences"] += 1
        stats["by_kind"][label] = stats["by_kind"].get(label, 0) + 1
        tail = "%s | %s" % (div.get("detail", ""), " | ".join(div.get("diff") or []))
        covered = None
        for names in alts:
            kfs = [vlib.match_known(PROP, {"kind": "as_coded", "op": div.get("op"),
                                           "detail": "explain=%s; kind=%s; %s" % (n, div["kind"], tail)}) for n in names]
            if names and all(kfs):
                covered = kfs
                break
        if covered:
            for kf in covered:
                stats["known"][kf["id"]] = stats["known"].get(kf["id"], 0) + 1
                if stats["known"][kf["id"]] == 1:
                    chk.known.append((kf["id"], "%s [%s]" % (kf["what"], kf["id"])))
            continue
        stats["reported"] += 1
        if stats["reported"] <= 25:
            h = hmap.get(div["id"])
            what = "%s at step %d of history %s in %s%s\n%s\n%s\n%s" % (
                div["kind"], div["step"], div["id"], profile_name(profile),
                (" (reproduced by the code deviation(s) %s; not all of them are open known findings)" % " or ".join("+".join(a) for a in alts)) if alts else "",
                div.get("detail", ""), "\n".join((div.get("diff") or [])[:8]), div.get("request", ""))
            chk.violation(what, {"property": PROP, "profile": dict(profile), "geom": stats["geom"], "history": h, "divergence": div})


def run(tier):
    chk = Check(PROP, tier)
    rng = random.Random(vlib.seed())
    quick = tier == "quick"
    ok, msg = vlib.sany(MODULE)
    if not ok:
        raise Infra("tla-sany rejects %s:\n%s" % (MODULE, msg))
    binary()  # build first: a build failure must not cost the TLC time

    # 1. design => requirement, and the canaries
    bg = {}

    def background():
        try:
            model_check(chk, "MC_Gateway_all", dict(BASE, MaxOps=4 if quick else 6), timeout=300 if quick else 1500)
            bg["caught"] = canaries(chk, [c[0] for c in CANARIES])
        except Exception as e:  # reported after join
            bg["error"] = e
    th = threading.Thread(target=background)
    th.start()

    # 2. histories: transition cover per request universe + seeded random walks
    budget = 700 if quick else 9000
    parts = []
    geom = None
    universes = [
        ("MC_Gateway_cover_fw", dict(BASE, Reqs="<- c_ReqsFw", Cfgs="<- c_CfgsFw", Seeds="<- c_SeedsFew", MaxOps=2 if quick else 3, EmitFrom=1), 0.3),
        ("MC_Gateway_cover_cache", dict(BASE, Reqs="<- c_ReqsCache", Cfgs="<- c_CfgsCache", Seeds="<- c_Seeds", MaxOps=3 if quick else 4, EmitFrom=1), 0.35),
        ("MC_Gateway_cover_mix", dict(BASE, Reqs="<- c_ReqsMix", Cfgs="<- c_CfgsOn", Seeds="<- c_SeedsFew", MaxOps=2 if quick else 3, EmitFrom=1), 0.15),
    ]
    if not quick:
        universes.append(("MC_Gateway_cover_all", dict(BASE, MaxOps=3, EmitFrom=1), 0.2))
    n_records = 0
    for name, consts, share in universes:
        recs, geom = corpus(chk, name, consts, timeout=300 if quick else 1500)
        lv = leaves(recs)
        n_records += len(recs)
        parts.append((name, lv, sample(rng, lv, int(budget * share))))
    walks, geom = corpus(chk, "MC_Gateway_walks", dict(BASE, MaxOps=9, MaxTicks=2, EmitFrom=1), simulate=120 if quick else 1200, depth=10)
    lw = leaves(walks)
    parts.append(("MC_Gateway_walks", lw, sample(rng, lw, int(budget * 0.2) if quick else len(lw))))
    histories = []
    for name, lv, chosen in parts:
        for h in chosen:
            histories.append({"id": "%s-%d" % (name.replace("MC_Gateway_", ""), len(histories)), "cfg": h["cfg"], "ops": h["ops"]})
    chk.cov["distinct_nontrivial"] = len(histories)
    chk.cov["rule"] = ("histories = maximal histories of TLC's corpus: (a) transition cover -- one history per (abstract cache contents, step) pair reachable "
                       "within the bound, for the firewall, cache and mixed request universes%s; (b) seeded random walks of 9 steps over the full universe "
                       "(7 positions x pattern x marker x stream x retrieval route, 7 plantable entries, 3 documents, 8 configurations). "
                       "Available: %s; replayed after stratified sampling (round robin over configuration x last-step class): %s" % (
                           "" if quick else " and the full universe", {n: len(lv) for n, lv, _ in parts}, {n: len(c) for n, _, c in parts}))
    chk.cov["critical_situations_replayed"] = {}
    for h in histories:
        c = critical(h)
        if c:
            chk.cov["critical_situations_replayed"][c[0]] = chk.cov["critical_situations_replayed"].get(c[0], 0) + 1
    for need in ("shadowed_hit", "inval_spares"):
        if not chk.cov["critical_situations_replayed"].get(need):
            chk.infra.append("vacuous: no replayed history contains the situation %r" % need)
    chk.cov["samples"] = [{"cfg": h["cfg"], "steps": [dict(strip(o), required=o.get("accept") or o.get("gone")) for o in h["ops"]]} for h in histories[:3]]

    th.join()
    if "error" in bg:
        raise bg["error"] if isinstance(bg["error"], Infra) else Infra("model checking failed: %r" % bg["error"])
    caught = bg.get("caught", [])

    # 3. binding: replay on the real gateway in several concrete configurations
    profiles = [PROFILES[0], PROFILES[1], PROFILES[2 + vlib.seed() % 2]] if quick else PROFILES
    stats = {"divergences": 0, "reported": 0, "by_kind": {}, "known": {}, "geom": geom}
    totals = {"histories": 0, "steps": 0, "checks": 0, "requests": 0, "abandoned": 0, "resyncs": 0, "outcomes": {}, "shapes": {}}
    for i, prof in enumerate(profiles):
        prof = dict(prof, variant=vlib.seed() * 100 + i)
        res, hs = replay(chk, histories, prof, geom)
        judge(chk, res, hs, prof, stats)
        for k in ("histories", "steps", "checks", "requests", "abandoned", "resyncs"):
            totals[k] += res.get(k, 0)
        chk.cov.setdefault("replay_profiles", []).append({"profile": profile_name(prof), "histories": res.get("histories", 0),
                                                          "steps": res.get("steps", 0), "comparisons": res.get("checks", 0)})
    chk.cov["traces_validated_against_impl"] = totals["histories"]
    chk.cov["evaluations"] = totals["checks"]
    chk.cov["replay"] = dict(totals, divergences=stats["divergences"], divergences_by_kind=stats["by_kind"], divergences_attributed_to_known_findings=stats["known"], corpus_records=n_records + len(walks))
    chk.cov["canaries_caught"] = caught
    if totals["histories"] == 0 or totals["requests"] == 0:
        chk.infra.append("vacuous: no history was replayed")
    chk.assumptions += [
        "embedder, upstream model and query rewriter are deterministic stubs; the embedding of a message depends only on the phrase that identifies its position (case-insensitive), not on decoration, deny words or markers",
        "distances are abstract (squared distance on an integer line) in the specification; the harness proves at start-up that its vectors put every pair of positions on the same side of the real thresholds (0.25 firewall, 0.1 cache) under the real metric, through the repository's kernels and through a real index, with a margin of at least 20 %",
        "a prompt exactly on the firewall threshold may go either way (floating point; 'within the configured distance'); only realisable under the euclidean metric",
        "whether the answer to a message carrying one of the gateway's own task markers is stored or served from the cache is left open by the property: such a step may be a hit or forwarded and ends the history",
        "the clock is advanced by rewriting created_at of the stored entries (TTL 1 h), not by waiting; planted entries use the schema of saveToCache",
        "expired entries may stay in the index or be cleaned up lazily; fresh entries must match exactly",
        "only answers of non-streaming, forwarded requests answered with 200 are expected to be stored",
    ]
    return chk.finish()


def replay_file(path):
    rec = json.load(open(path))
    prof = dict(rec["profile"], geom=rec["geom"])
    d = vlib.scratch("c17-replay-")
    fin, fout = os.path.join(d, "in.json"), os.path.join(d, "out.json")
    json.dump({"profile": prof, "histories": [rec["history"]]}, open(fin, "w"))
    p = subprocess.run([binary(), "replay", "-v", "-in", fin, "-out", fout], capture_output=True, text=True)
    if p.returncode != 0:
        raise Infra("replay failed rc=%d\n%s" % (p.returncode, p.stderr[-3000:]))
    res = json.load(open(fout))
    print(p.stdout)
    divs = res.get("divergences") or []
    print(json.dumps({"profile": profile_name(rec["profile"]), "cfg": rec["history"]["cfg"],
                      "history": [strip(o) for o in rec["history"]["ops"]],
                      "divergences": [{k: d_[k] for k in ("step", "kind", "explain", "detail", "diff", "request") if k in d_} for d_ in divs]}, indent=1))
    want = rec["divergence"]
    same = [d_ for d_ in divs if d_["kind"] == want["kind"] and d_["step"] == want["step"]]
    if same:
        print("VIOLATION property=%s replay=%s" % (PROP, path))
        return vlib.EXIT_VIOLATION
    print("replay: the recorded divergence does not occur on the current tree")
    return vlib.EXIT_OK


if __name__ == "__main__":
    if len(sys.argv) > 2 and sys.argv[1] == "--replay":
        vlib.main_wrapper(lambda: replay_file(sys.argv[2]))
    tier = sys.argv[1] if len(sys.argv) > 1 else os.environ.get("VERIF_TIER", "quick")
    vlib.main_wrapper(lambda: run(tier))
