#!/usr/bin/env python3
"""C18 - stored vectors and distances stay faithful across precisions and storage.

Two specifications, both checked exhaustively by TLC within their bounds and bound to the code:

  spec/Arena.tla    implementation-shaped transcription of mmap.VectorArena (AllocSlot, FreeSlot, GetBytes,
                    GetState/LoadState, Close + reopen) and of the AsyncCompactor cycle, with the bytes of
                    every physical slot and a shadow map val[id].  TLC checks slot-table injectivity,
                    free/used disjointness, Read(id) = val[id] after every action (every step of a cycle
                    included) and termination of a cycle; the behaviours TLC emits (one per reachable
                    state) are replayed on a REAL VectorArena whose slots are ~22 MB so that 3 slots fill
                    a 64 MB chunk, compaction running through AsyncCompactor.RunCycle.
  spec/Kernels.tla  distance kernels, float16 rounding, the int8 quantiser and Train on a lattice where
                    integer arithmetic is the float arithmetic; one TLC state = one case = one call (a few:
                    both argument orders, self distance) of the real kernel / quantiser / hnsw index.

Exit 0 ok, 1 VIOLATION (divergence observed on the real code), 2 infrastructure."""
import concurrent.futures as cf
import json, os, random, sys, time
sys.path.insert(0, os.path.dirname(os.path.abspath(__file__)))
import vlib
from vlib import Check, make_cfg, run_tlc, Infra

PROP = "C18"
ARENA_INVS = ["Inv_Types", "Inv_Injective", "Inv_FreeDisjoint", "Inv_ReadBack", "Inv_MovesBounded"]
MAX_MOVES = 6          # TLC-checked bound on the relocations of one modelled cycle (Inv_MovesBounded)
WATCHDOG_FACTOR = 4    # the real cycle is declared non-terminating after WATCHDOG_FACTOR * MAX_MOVES relocations


def arena_consts(spc, chunks, nids, maxops, policy="impl", detect=True, readers="off", th=(3, 10)):
    return {"SPC": spc, "MaxChunks": chunks, "NIds": nids, "MaxOps": maxops, "ThNum": th[0], "ThDen": th[1],
            "BatchMax": 100, "Policy": '"%s"' % policy, "DetectLoop": "TRUE" if detect else "FALSE",
            "Readers": '"%s"' % readers, "MaxMoves": MAX_MOVES}


def arena_profile(consts, readers=0):
    return {"spc": consts["SPC"], "nids": consts["NIds"], "thnum": consts["ThNum"], "thden": consts["ThDen"],
            "move_bound": WATCHDOG_FACTOR * MAX_MOVES, "readers": readers}


# ------------------------------------------------------------------------------------- TLC runs

def tlc_arena(name, consts, spec="SpecCorpus", invs=ARENA_INVS, props=(), workers=4, timeout=900):
    cfg = make_cfg(spec, consts, invs, props, constraint="Bound", view="View")
    return name, run_tlc("Arena", name + ".cfg", cfg_text=cfg, workers=workers, timeout=timeout, keep_lines=bool(props))


def tlc_walks(name, consts, walks, depth):
    """random walks (TLC simulation mode, seeded): long histories beyond the exhaustive bounds"""
    cfg = make_cfg("SpecCorpus", consts, ARENA_INVS, (), constraint="Bound", view="View")
    return name, run_tlc("Arena", name + ".cfg", cfg_text=cfg, workers=1, timeout=1500, simulate=walks, depth=depth, seed_=vlib.seed())


def tlc_kernels(name, consts, workers=2, timeout=900):
    cfg = make_cfg("Spec", consts, ["Inv_Pair", "Inv_Quant", "Inv_F16", "Inv_Train", "Inv_Rb8"], [])
    return name, run_tlc("MC_Kernels", name + ".cfg", cfg_text=cfg, workers=workers, timeout=timeout)


def kernel_consts(kind, quick):
    base = {"Kinds": "<- k_Empty", "C1": "<- k_Empty", "C2": "<- k_Empty", "C3": "<- k_Empty", "C4": "<- k_Empty",
            "MisDims": "<- k_Empty", "QA": "<- k_Empty", "QN": "<- k_Empty", "QDen": "<- k_Den1", "TrainM": "<- k_Empty",
            "TrainD": "<- k_Empty", "F16N": "<- k_Empty", "RbN": "<- k_Empty", "RbA": "<- k_Empty"}
    c = dict(base)
    c["Kinds"] = '{"%s"}' % kind
    if kind == "pair":
        if quick:
            c.update(C1="<- k_L3x", C2="<- k_L3", C3="<- k_L1", C4="<- k_L1")
        else:
            c.update(C1="<- k_L3x", C2="<- k_L3x", C3="<- k_L3", C4="<- k_L1")
    elif kind == "pairx":   # int8 extremes incl. -128 (never produced by Quantize but legal kernel input), dimension 1..3
        c["Kinds"] = '{"pair"}'
        c.update(C1="<- k_Ext", C2="<- k_Ext", C3="<- k_Ext" if not quick else "<- k_Empty")
    elif kind == "mismatch":
        c.update(MisDims="<- k_Dims")
    elif kind == "quant":
        c.update(QA="<- k_QAq" if quick else "<- k_QA", QN="<- k_QNq" if quick else "<- k_QN", QDen="<- k_Den14")
    elif kind == "train":
        c.update(TrainM="<- k_TrainMq" if quick else "<- k_TrainM", TrainD="<- k_TrainD")
    elif kind == "f16":
        c.update(F16N="<- k_F16Nq" if quick else "<- k_F16N")
    elif kind == "rb8":
        c.update(RbA="<- k_RbAq" if quick else "<- k_RbA", QDen="<- k_Den14", RbN="<- k_RbNq" if quick else "<- k_RbN")
    return c


# ------------------------------------------------------------------------------------- corpus -> behaviours

def features(steps):
    """What a behaviour exercises, judged from the specification's predictions."""
    f = set()
    prev = None
    for s in steps:
        op, exp = s["op"]["op"], s["exp"]
        if exp is None:
            continue
        if op == "Compact":
            f.add("compact_" + exp["last"])
            if prev is not None and exp["last"] == "done":
                if exp["st"] != prev["st"]:
                    f.add("relocation")
                if exp["nch"] < prev["nch"]:
                    f.add("chunk_drop")
                if exp["nch"] > prev["nch"] or exp["nx"] > prev["nx"]:
                    f.add("compaction_grows")
        if op == "Put" and prev is not None and len(exp["fs"]) < len(prev["fs"]):
            f.add("slot_reuse")
        if op == "Restore":
            f.add("restore")
            if prev is not None and (exp["st"] != prev["st"] or exp["mem"] != prev["mem"]):
                f.add("restore_changes")
        if op == "Reopen":
            f.add("reopen")
            if "relocation" in f or "chunk_drop" in f:
                f.add("reopen_after_compaction")
        if exp["nch"] >= 2:
            f.add("multi_chunk")
        if exp.get("bad"):
            f.add("stale_reader")
        prev = exp
    return f


def behaviours_from(corpus, rng, quota, tag, max_diverging=4):
    """Prefix tree of TLC's corpus; records printed in the middle of a cycle carry no expectation."""
    table = {}
    for rec in corpus:
        if rec.get("mid"):
            continue
        table[json.dumps(rec["ops"], sort_keys=True)] = rec
    prefixes = set()
    for rec in table.values():
        ops = rec["ops"]
        for i in range(len(ops)):
            prefixes.add(json.dumps(ops[:i], sort_keys=True))
    leaves = [rec for key, rec in table.items() if key not in prefixes and rec["ops"]]
    leaves.sort(key=lambda r: json.dumps(r["ops"], sort_keys=True))
    behs = []
    for rec in leaves:
        ops = rec["ops"]
        steps = []
        for i, op in enumerate(ops):
            exp = table.get(json.dumps(ops[: i + 1], sort_keys=True))
            steps.append({"op": op, "exp": exp["obs"] if exp else None})
        behs.append({"steps": steps, "features": sorted(features(steps))})
    # stratified choice: every feature class gets its share before the rest is filled at random
    rng.shuffle(behs)
    chosen, seen = [], set()
    classes = ["compact_diverged", "relocation", "chunk_drop", "compaction_grows", "restore_changes", "reopen_after_compaction",
               "slot_reuse", "multi_chunk", "compact_skip", "stale_reader"]
    per = max(1, quota // (2 * len(classes)))
    for cl in classes:
        n = 0
        for i, b in enumerate(behs):
            if n >= (min(per, max_diverging) if cl == "compact_diverged" else per):
                break
            if cl != "compact_diverged" and "compact_diverged" in b["features"]:
                continue   # a diverging cycle costs 4 * MAX_MOVES relocations of ~22 MB each: only max_diverging of them
            if i not in seen and cl in b["features"]:
                # shortest diverging behaviours first would bias; keep random order
                seen.add(i)
                chosen.append(b)
                n += 1
    for i, b in enumerate(behs):
        if len(chosen) >= quota:
            break
        if i not in seen and "compact_diverged" not in b["features"]:
            seen.add(i)
            chosen.append(b)
    for n, b in enumerate(chosen):
        b["id"] = "%s%d" % (tag, n)
    return chosen, len(table), len(leaves)


# ------------------------------------------------------------------------------------- judging

SPEC_KINDS = {"spec_mismatch"}     # the code differs from the transcription but violates no requirement: spec to be updated


def judge(chk, checker, profile, items, res, item_key):
    """items: id -> behaviour/case. Divergences of property level -> known finding or violation."""
    reported = 0
    for e in res.get("errors", []) or []:
        chk.infra.append("%s replay error: %s" % (checker, e))
    for div in res.get("divergences", []) or []:
        beh = items.get(div["id"])
        if div["kind"] in SPEC_KINDS:
            chk.infra.append("specification out of date w.r.t. the code (%s, %s step %d): %s %s" % (
                checker, div["id"], div.get("step", 0), div.get("detail", ""), "; ".join(div.get("diff") or [])[:600]))
            continue
        kf = vlib.match_known(PROP, div, beh if (beh and "steps" in beh) else None)
        if kf:
            chk.known.append((kf["id"], kf["what"]))
            continue
        reported += 1
        if reported <= 25:
            hist = json.dumps([s["op"] for s in beh["steps"]]) if beh and "steps" in beh else json.dumps(beh)[:400]
            what = "%s at step %d (%s) of %s\n%s\n%s" % (div["kind"], div.get("step", 0), json.dumps(div.get("op")), hist,
                                                       div.get("detail", ""), "\n".join((div.get("diff") or [])[:12]))
            chk.violation(what, {"property": PROP, "checker": checker, "profile": profile, item_key: beh, "divergence": div})
    return reported


def replay_arena(chk, binary, consts, behs, readers=0, shards=None):
    prof = arena_profile(consts, readers)
    res = vlib.run_sharded(binary, "arena", prof, behs, shards=shards, timeout=3000)
    chk.cov["traces_validated_against_impl"] += res.get("behaviours", 0)
    chk.cov["evaluations"] += res.get("checks", 0)
    judge(chk, "arena", prof, {b["id"]: b for b in behs}, res, "behaviour")
    return res


def replay_kernels(chk, binary, cases, index):
    for i, c in enumerate(cases):
        c["id"] = i
    prof = {"index": index}
    res = vlib.run_sharded(binary, "kernels", prof, cases, timeout=3000, payload_key="cases")
    items = {"%s#%d" % (c["c"]["k"], c["id"]): c for c in cases}
    judge(chk, "kernels", prof, items, res, "case")
    chk.cov["evaluations"] += res.get("checks", 0)
    return res


WITNESS = [{"op": "Put", "id": 0, "v": 11}, {"op": "Put", "id": 1, "v": 21}, {"op": "Put", "id": 2, "v": 31},
           {"op": "Free", "id": 0}, {"op": "Free", "id": 1}, {"op": "Compact"}]


def probe_policy(binary):
    """Arena.tla carries two transcriptions of the target choice of compactChunk: "impl" (targets from the top of the LIFO
    free list - the code as found, whose cycle can run for ever) and "fixed" (the repair proposed in the report of C18:
    lowest free slots, downwards only).  The shortest livelock witness TLC finds for "impl" tells which one the tree
    under test implements; everything else is then compared exactly against that policy."""
    prof = {"spc": 3, "nids": 3, "thnum": 3, "thden": 10, "move_bound": WATCHDOG_FACTOR * MAX_MOVES, "readers": 0}
    res = vlib.run_sharded(binary, "arena", prof, [{"id": "witness", "steps": [{"op": op, "exp": None} for op in WITNESS]}], shards=1)
    if res.get("errors"):
        raise Infra("policy probe failed: %s" % res["errors"])
    kinds = [d["kind"] for d in res.get("divergences") or []]
    if kinds == ["compaction_livelock"]:
        return "impl"
    if not kinds:
        return "fixed"
    raise Infra("policy probe: unexpected divergences %s" % (res.get("divergences"),))


# ------------------------------------------------------------------------------------- the check

def run(tier):
    chk = Check(PROP, tier)
    rng = random.Random(vlib.seed())
    quick = tier == "quick"
    binary = vlib.build_harness(cmd="c18")
    for m in ("Arena", "MC_Kernels"):
        ok, out = vlib.sany(m)
        if not ok:
            raise Infra("SANY rejects %s:\n%s" % (m, out))

    # ---- 1. TLC, all configurations in parallel
    policy = probe_policy(binary)
    P = lambda *a_, **k_: arena_consts(*a_, policy=policy, **k_)
    full = {}     # exhaustive runs without corpus (thorough): larger bounds than what is replayed
    walks = None
    if quick:
        a3 = P(3, 3, 4, 6)
        a2 = P(2, 3, 4, 6)
        live = P(3, 2, 3, 6, detect=False)
        fixed = arena_consts(3, 3, 4, 6, policy="fixed", detect=False)
        rdr = P(3, 2, 3, 7, readers="coarse")
        rdrf = None
    else:
        a3 = P(3, 3, 4, 7)
        a2 = P(2, 3, 4, 6)
        full = {"Arena_spc3_full": P(3, 3, 5, 7), "Arena_spc2_full": P(2, 3, 4, 8), "Arena_spc4_full": P(4, 3, 5, 7)}
        walks = P(3, 3, 5, 14)
        live = P(3, 3, 4, 7, detect=False)
        fixed = arena_consts(3, 3, 5, 7, policy="fixed", detect=False)
        rdr = P(3, 2, 3, 7, readers="coarse")
        rdrf = P(3, 2, 3, 7, readers="fine")
    kinds = ["pair", "pairx", "mismatch", "quant", "train", "f16", "rb8"]
    jobs = []
    with cf.ThreadPoolExecutor(max_workers=8 if quick else 6) as ex:
        w = 3 if quick else 4
        jobs.append(ex.submit(tlc_arena, "Arena_spc3", a3, "SpecCorpus", ARENA_INVS, (), w, 1500))
        jobs.append(ex.submit(tlc_arena, "Arena_spc2", a2, "SpecCorpus", ARENA_INVS, (), w, 1500))
        for name, consts in full.items():
            jobs.append(ex.submit(tlc_arena, name, consts, "Spec", ARENA_INVS, (), w, 2400))
        if policy == "impl":   # for "fixed" the run Arena_fixed below is this very check
            jobs.append(ex.submit(tlc_arena, "Arena_live", live, "SpecLive", ["Inv_ReadBack"], ["Prop_CycleTerminates"], 2, 1500))
        jobs.append(ex.submit(tlc_arena, "Arena_fixed", fixed, "SpecLive", ARENA_INVS[:4] + ["Inv_NoDivergence"],
                              ["Prop_CycleTerminates", "Prop_Progress", "Prop_NoGrowth"], w, 2400))
        jobs.append(ex.submit(tlc_arena, "Arena_reader", rdr, "SpecCorpus", ARENA_INVS, (), 2, 1500))
        if rdrf:
            jobs.append(ex.submit(tlc_arena, "Arena_reader_fine", rdrf, "Spec", ARENA_INVS[:4] + ["Inv_ReaderFaithful"], (), 2, 1500))
        if walks:
            jobs.append(ex.submit(tlc_walks, "Arena_walks", walks, 2500, 60))
        for k in kinds:
            jobs.append(ex.submit(tlc_kernels, "Kernels_" + k, kernel_consts(k, quick), 1 if quick else 2, 1500))
        results = {}
        for j in jobs:
            name, r = j.result()
            results[name] = r

    # ---- 2. design-level verdicts
    for name in ["Arena_spc3", "Arena_spc2", "Arena_fixed", "Arena_reader"] + sorted(full):
        chk.add_tlc(name, results[name])
    design_livelock = False
    chk.cov["policy_matched"] = policy
    if policy == "impl":
        r = results["Arena_live"]
        run_rec = {"config": "Arena_live", "distinct_states": r.distinct, "states_generated": r.generated, "depth": r.depth,
                   "wall_s": round(r.wall, 1), "ok": r.ok, "cmd": r.cmd}
        if r.ok:
            run_rec["verdict"] = "every compaction cycle of the transcription terminates"
        elif r.error and "Prop_CycleTerminates" in r.error:
            design_livelock = True
            lines = getattr(r, "lines", [])
            cyc = [ln for ln in lines if ln.startswith("/\\ st =") or ln.startswith("/\\ fs =") or ln.startswith("Back to state")]
            run_rec["verdict"] = "Prop_CycleTerminates violated by the transcription of compactChunk: lasso " + " | ".join(cyc[-5:])
            run_rec["ok"] = "expected-counterexample"
        else:
            chk.infra.append("TLC failed on Arena_live: %s" % (r.error or r.raw_tail)[:1500])
        chk.cov["tlc_runs"].append(run_rec)
        chk.cov["states"] += r.distinct
        chk.cov["transitions"] += r.generated
    design_stale = False
    if rdrf:
        r = results["Arena_reader_fine"]
        rec = {"config": "Arena_reader_fine", "distinct_states": r.distinct, "states_generated": r.generated, "depth": r.depth,
               "wall_s": round(r.wall, 1), "ok": r.ok, "cmd": r.cmd}
        if r.violated == "Inv_ReaderFaithful":
            rec["ok"] = "expected-counterexample"
            rec["verdict"] = "a reader that obtained its slice before a relocation can read another vector's bytes (no grace period before a vacated slot is reused)"
            design_stale = True
        elif not r.ok:
            chk.infra.append("TLC failed on Arena_reader_fine: %s" % (r.error or r.raw_tail)[:1500])
        chk.cov["tlc_runs"].append(rec)
        chk.cov["states"] += r.distinct
        chk.cov["transitions"] += r.generated
    ncases = 0
    for k in kinds:
        chk.add_tlc("Kernels_" + k, results["Kernels_" + k])
        ncases += len(results["Kernels_" + k].corpus)

    # ---- 3. behaviours for the arena
    quota = 220 if quick else 2600
    b3, n3, l3 = behaviours_from(results["Arena_spc3"].corpus, rng, quota, "a", max_diverging=4 if quick else 40)
    b2, n2, l2 = behaviours_from(results["Arena_spc2"].corpus, rng, quota // 3, "b", max_diverging=2 if quick else 12)
    bw, nw, lw = ([], 0, 0)
    if walks:
        bw, nw, lw = behaviours_from(results["Arena_walks"].corpus, rng, 700, "w", max_diverging=20)
        chk.cov["tlc_runs"].append({"config": "Arena_walks", "mode": "simulate", "walks": 2500, "depth": 60, "seed": vlib.seed(),
                                    "corpus_records": nw, "wall_s": round(results["Arena_walks"].wall, 1)})
    # two-step reader: behaviours in which the specification says the reader sees foreign bytes
    stale = [rec for rec in results["Arena_reader"].corpus if rec["obs"].get("bad") and not rec.get("mid")]
    stale.sort(key=lambda r_: (len(r_["ops"]), json.dumps(r_["ops"], sort_keys=True)))
    pick = stale[:1] + rng.sample(stale[1:], min(len(stale) - 1, 5 if quick else 40)) if stale else []
    bstale = [{"id": "r%d" % i, "steps": [{"op": op, "exp": None} for op in rec["ops"]], "features": ["stale_reader"]}
              for i, rec in enumerate(pick)]
    if not b3 or not b2 or (walks and not bw):
        raise Infra("the arena corpus is empty")
    for name in ("Arena_spc3", "Arena_spc2", "Arena_reader", "Arena_walks"):
        if name in results:
            results[name].corpus = []      # the parsed corpus is large; only the chosen behaviours are kept
    feats = {}
    for b in b3 + b2 + bw:
        for f in b["features"]:
            feats[f] = feats.get(f, 0) + 1
    need = ["relocation", "chunk_drop", "restore_changes", "reopen_after_compaction", "slot_reuse", "multi_chunk"]
    missing = [f for f in need if not feats.get(f)]
    if missing:
        chk.infra.append("vacuous arena corpus: no behaviour exercises %s" % missing)

    # ---- 4. binding: replay on the real arena
    t0 = time.time()
    res3 = replay_arena(chk, binary, a3, b3)
    res2 = replay_arena(chk, binary, a2, b2)
    resw = replay_arena(chk, binary, walks, bw) if bw else {}
    ress = replay_arena(chk, binary, rdr, bstale, shards=4) if bstale else {}
    # concurrent variant: readers loop over GetBytes of every live id while each cycle runs
    conc = [b for b in b3 if "relocation" in b["features"] or "compact_diverged" in b["features"] or "chunk_drop" in b["features"]]
    conc = conc[: (24 if quick else 200)]
    for b in conc:
        b["id"] = "c" + b["id"]
    resc = replay_arena(chk, binary, a3, conc, readers=3, shards=4) if conc else {}
    for b in conc:
        b["id"] = b["id"][1:]
    t_arena = time.time() - t0
    livelocks = sum(1 for r_ in (res3, res2, resw, resc) for d in (r_.get("divergences") or []) if d["kind"] == "compaction_livelock")
    predicted = sum(1 for b in b3 + b2 + bw if "compact_diverged" in b["features"])
    if design_livelock and predicted and not livelocks and not chk.infra:
        chk.infra.append("TLC's livelock counterexample does not reproduce on the code: specification out of date")
    stale_seen = sum(1 for d in (ress.get("divergences") or []) if d["kind"] == "stale_slice_after_relocation")
    if bstale and not stale_seen and not chk.infra:
        chk.infra.append("the two-step reader counterexample of the specification does not reproduce on the code")

    # ---- 5. binding: kernels, quantiser, float16, read back through hnsw
    t0 = time.time()
    cases = []
    for k in kinds:
        cs = results["Kernels_" + k].corpus
        if not cs:
            chk.infra.append("Kernels_%s produced no case" % k)
        cases += cs
    kres = replay_kernels(chk, binary, cases, index=True)
    t_kern = time.time() - t0

    # ---- 6. evidence
    chk.cov["distinct_nontrivial"] = len(b3) + len(b2) + len(bw) + len(bstale) + len(conc) + len(cases)
    chk.cov["exhaustive"] = True
    chk.cov["rule"] = (
        "arena: behaviours = leaves of the prefix tree of TLC's corpus (one shortest history per reachable state of Arena.tla), "
        "stratified by what the specification predicts (relocation, chunk drop, divergence, restore, reopen, slot reuse, several chunks) "
        "and sampled with the seed; after EVERY step the real arena's slot table, free list (order included), next slot, chunk files, "
        "the bytes of every physical slot (read from the chunk files) and GetBytes of every id are compared with the specification, and "
        "injectivity / free-used disjointness / read back = last write / node pointer = GetBytes are evaluated on the real state directly; "
        "kernels: EVERY state of Kernels.tla is one case executed on the real code, results compared with the exact integers")
    chk.cov["arena"] = {
        "corpus_records": {"spc3": n3, "spc2": n2, "walks": nw}, "leaves": {"spc3": l3, "spc2": l2, "walks": lw},
        "replayed": {"spc3": len(b3), "spc2": len(b2), "walks": len(bw), "two_step_reader": len(bstale), "concurrent_readers": len(conc)},
        "features_replayed": feats, "steps": sum(r_.get("steps", 0) for r_ in (res3, res2, resw, ress, resc)),
        "relocations_on_real_arena": sum(r_.get("relocations", 0) for r_ in (res3, res2, resw, ress, resc)),
        "concurrent_reads_checked": resc.get("reads", 0), "livelocks_observed": livelocks, "livelocks_predicted": predicted,
        "stale_slice_reproduced": stale_seen, "wall_s": round(t_arena, 1)}
    chk.cov["kernels"] = {"cases": len(cases), "per_kind": {k: len(results["Kernels_" + k].corpus) for k in kinds},
                          "calls_checked": kres.get("checks", 0), "wall_s": round(t_kern, 1), "notes": sorted(set(kres.get("notes") or []))[:8]}
    chk.cov["samples"] = [[s["op"] for s in b["steps"]] for b in (b3[:2] + bstale[:1])] + [c["c"] for c in cases[:1]]
    chk.assumptions += [
        "target choice of compactChunk matched by the livelock witness probe: Policy = \"%s\" of Arena.tla (\"impl\" = the code as found, "
        "\"fixed\" = the repair proposed with finding KF-C18-1); allocator state is compared exactly against that policy" % policy,
        "pure-Go build only (no 'rust' tag, no AVX assembly): SIMD/Rust kernels are out of scope",
        "int8 exists only with the cosine metric, and a cosine index stores the UNIT vector for every precision: the read-back law of the "
        "int8 index is q_i = clip(roundHalfAway(127 * (x_i/|x|) / AbsMax), +-127) * AbsMax/127, decided by TLC on cross-multiplied squared integers "
        "(both neighbours admitted when a rounding boundary is closer than 1e-5 relative); the raw-vector law (clip, never wrap) is checked on "
        "distance.Quantizer itself incl. magnitudes 2^24 and 2^30 times the unit; the index distance (ComputeDistanceToVector) is the cosine "
        "distance between the integers the index really returns and the quantised UNIT query (same admissible-integer sets; any admissible "
        "combination is accepted where a rounding boundary of the query is ambiguous)",
        "NOT decided: tolerance bounds of kernels/quantiser for general float magnitudes (denormal..large, NaN/Inf, float16 overflow "
        "beyond 65504) and the clause 'compression perturbs rankings only among near-ties' for general data - only lattice instances "
        "(integers |c| <= 127 resp. n/4096, dimensions 0..4, AbsMax in {1,2,3,127,254,381}/{1,4}) are decided, where the spec's integers are exact",
        "arena bounds replayed: %d ids, %d or 2 slots per chunk, at most 3 chunks, histories of at most %d operations (thorough: TLC alone also "
        "5 ids / 7-8 operations / 2, 3 and 4 slots per chunk, and seeded random walks of 14 operations over 5 ids are replayed); a slot is written "
        "right after it is allocated (hnsw.Add); a snapshot carries the vectors and rewrites them on load (hnsw.LoadSnapshotData); "
        "LoadState gets a private copy of the saved state (a snapshot is deserialised afresh)" % (a3["NIds"], a3["SPC"], a3["MaxOps"]),
        "mutators (AllocSlot/FreeSlot) never run concurrently with a cycle in the model or in the replays (the engine never calls FreeSlot at all); "
        "concurrency covered: reader goroutines calling GetBytes+read of every live id during real cycles (every read compared with the last "
        "value written: a per-id register with no concurrent writer), and the deterministic two-step reader schedule",
        "a cycle is declared non-terminating on the real code after %d relocations; TLC proves that no modelled cycle relocates more than %d "
        "vectors before it ends or repeats an allocator state" % (WATCHDOG_FACTOR * MAX_MOVES, MAX_MOVES),
        "values are 8-byte sentinels at both ends of each ~22 MB slot (torn copies of the middle of a slot would go unnoticed)",
    ]
    return chk.finish()


# ------------------------------------------------------------------------------------- replay

def replay_file(path):
    rec = json.load(open(path))
    binary = vlib.build_harness(cmd="c18")
    if rec["checker"] == "arena":
        res = vlib.run_sharded(binary, "arena", rec["profile"], [rec["behaviour"]], shards=1)
        shown = [s["op"] for s in rec["behaviour"]["steps"]]
    else:
        res = vlib.run_sharded(binary, "kernels", rec["profile"], [rec["case"]], shards=1, payload_key="cases")
        shown = rec["case"]["c"]
    divs = [d for d in (res.get("divergences") or []) if d["kind"] not in SPEC_KINDS]
    print(json.dumps({"input": shown, "divergences": res.get("divergences"), "errors": res.get("errors")}, indent=1))
    if divs:
        print("VIOLATION property=%s replay=%s" % (PROP, path))
        return vlib.EXIT_VIOLATION
    print("replay: no divergence on the current tree")
    return vlib.EXIT_OK


if __name__ == "__main__":
    if len(sys.argv) > 2 and sys.argv[1] == "--replay":
        vlib.main_wrapper(lambda: replay_file(sys.argv[2]))
    tier_ = sys.argv[1] if len(sys.argv) > 1 else os.environ.get("VERIF_TIER", "quick")
    vlib.main_wrapper(lambda: run(tier_))
