#!/usr/bin/env python3
"""C20 -- text analysis, chunking and context assembly are total and bounded.

Technique: explicit TLA+ specifications checked by TLC + conformance binding to the real code.

  spec/Split.tla     transcription of rag.RecursiveCharacterSplitter (all built-in strategies of
                     NewSplitterFactory) and text.FixedSizeChunker over strings on a tiny alphabet;
                     TLC enumerates every (text, strategy, size, overlap) case, checks the property
                     invariants and emits the expected chunks; harness/cmd/c20 `split` runs the REAL
                     code on every case, compares exactly and evaluates the property predicates on
                     the real output.
  spec/Compress.tla  lexical compression over token kinds; the kinds that exist are probed from the
                     analyzer's own (unexported) word lists at run time (go test -overlay); `compress`
                     refines every enumerated kind sequence to real words.
  spec/Adaptive.tla  expandGraphBFS / expandGreedy / assembleContext over chunk graphs with cycles,
                     hubs and dangling ids; `adaptive` drives rag.AdaptiveRetriever over a stub
                     AdaptiveStore built from each enumerated graph.
  `explore`          seeded arbitrary byte strings through the same calls under a panic/timeout
                     guard: plain exploration, reported as such (not model checking).

Verdict: a VIOLATION is only ever a property predicate that failed on the output of the real code
(or a panic / timeout / nondeterminism of the real code).  A real output that differs from the
transcription while the predicates hold is a specification error (exit 2).
"""
import json, os, subprocess, sys, time, shutil, concurrent.futures as cf

sys.path.insert(0, os.path.dirname(os.path.abspath(__file__)))
import vlib
from vlib import Check, make_cfg, Infra


def run_tlc(*a, **kw):
    """vlib.run_tlc with a bounded JVM heap (several TLC instances run side by side)."""
    kw.setdefault("env_extra", {"JAVA_TOOL_OPTIONS": "-Xmx4g"})
    return vlib.run_tlc(*a, **kw)

PROP = "C20"

# --------------------------------------------------------------------------------------------
# replay plumbing

def merge_reports(reports):
    out = {"groups": {}, "samples": []}
    for r in reports:
        for k, v in r.items():
            if k == "groups":
                for g in v or []:
                    cur = out["groups"].setdefault(g["sig"], {"kind": g["kind"], "sig": g["sig"], "count": 0, "examples": []})
                    cur["count"] += g["count"]
                    cur["examples"] = sorted(cur["examples"] + g["examples"], key=lambda e: e.get("weight", 0))[:3]
            elif k == "samples":
                out["samples"] += v or []
            elif isinstance(v, (int, float)) and not isinstance(v, bool):
                out[k] = out.get(k, 0) + v
            elif isinstance(v, dict):
                d = out.setdefault(k, {})
                for kk, vv in v.items():
                    d[kk] = d.get(kk, 0) + vv
    out["groups"] = list(out["groups"].values())
    return out


def run_binary(binary, subcmd, lines, extra_args=(), shards=8, timeout=3000):
    """Feed the ndjson `lines` to `c20 <subcmd>` in `shards` parallel processes; merged report."""
    if not lines:
        return merge_reports([])
    d = vlib.scratch("c20-replay-")
    try:
        shards = max(1, min(shards, (len(lines) + 199) // 200))
        procs = []
        for i in range(shards):
            fin, fout = os.path.join(d, "in%d.ndjson" % i), os.path.join(d, "out%d.json" % i)
            with open(fin, "w") as f:
                for ln in lines[i::shards]:
                    f.write(ln)
                    f.write("\n")
            procs.append((subprocess.Popen([binary, subcmd, "-in", fin, "-out", fout] + list(extra_args),
                                           stdout=subprocess.PIPE, stderr=subprocess.PIPE, text=True), fout))
        reports = []
        for p, fout in procs:
            try:
                so, se = p.communicate(timeout=timeout)
            except subprocess.TimeoutExpired:
                p.kill()
                raise Infra("c20 %s: replay shard timed out" % subcmd)
            if p.returncode != 0 or not os.path.exists(fout):
                raise Infra("c20 %s failed rc=%s\n%s\n%s" % (subcmd, p.returncode, so[-1500:], se[-3000:]))
            with open(fout) as f:
                reports.append(json.load(f))
        return merge_reports(reports)
    finally:
        shutil.rmtree(d, ignore_errors=True)


class Part:
    """What one part of the check did; merged into the Check by the main thread."""

    def __init__(self, name):
        self.name = name
        self.tlc = []          # (config name, TLCResult)
        self.expected_cex = [] # (config name, TLCResult) strict configs that are allowed to fail
        self.infra = []
        self.reports = []      # (subcmd, extra_args, merged report)
        self.info = {}


def judge(chk, part, subcmd, extra_args, report, origin="TLC-enumerated case"):
    """Attribute every divergence group of a replay report."""
    mism = []
    for g in report.get("groups", []):
        ex = g["examples"][0]
        if g["kind"] == "transcription_mismatch":
            mism.append(g)
            continue
        div = {"kind": g["kind"], "detail": ex.get("detail", ""), "diff": ex.get("diff") or []}
        kf = vlib.match_known(PROP, div)
        if kf:
            if kf["id"] not in [k for k, _ in chk.known]:
                chk.known.append((kf["id"], "%s: %s [e.g. %s]" % (kf["id"], kf["what"], ex.get("detail", "")[:400])))
            chk.cov.setdefault("known_finding_cases", {})
            chk.cov["known_finding_cases"][kf["id"]] = chk.cov["known_finding_cases"].get(kf["id"], 0) + g["count"]
            continue
        seen = chk.cov.setdefault("_reported_sigs", {})
        seen[g["sig"]] = seen.get(g["sig"], 0) + g["count"]
        if seen[g["sig"]] > g["count"]:
            continue          # this signature was already reported from another configuration
        e = ex
        what = "%s (%d cases with this signature in this configuration, %s, part %s)\n%s\n%s" % (
            g["sig"], g["count"], origin, part, e.get("detail", ""), "\n".join(e.get("diff") or []))
        chk.violation(what, {"property": PROP, "part": subcmd, "args": list(extra_args), "case": e.get("case"),
                             "kind": g["kind"], "sig": g["sig"], "detail": e.get("detail", "")})
    if report.get("skipped") and not any(g["kind"] == "timeout" for g in report.get("groups", [])):
        chk.infra.append("%s/%s: %d cases were skipped without a recorded timeout" % (part, subcmd, report["skipped"]))
    if mism and not chk.violations:
        for g in mism[:3]:
            e = g["examples"][0]
            chk.infra.append("the real code differs from the transcription on %d cases although the property predicates hold "
                             "(specification error or changed behaviour; fix spec/%s): %s\n%s" % (
                                 g["count"], {"split": "Split.tla", "compress": "Compress.tla", "adaptive": "Adaptive.tla"}.get(subcmd, "?"),
                                 e.get("detail", "")[:600], "\n".join(e.get("diff") or [])[:1200]))


def corpus_lines(r):
    """One ndjson line per DISTINCT corpus record (TLC may evaluate a printing action more than once)."""
    return list(dict.fromkeys(json.dumps(rec, separators=(",", ":"), sort_keys=True) for rec in r.corpus))


# --------------------------------------------------------------------------------------------
# part 1: Split.tla

SPLIT_INVS = ["TypeOK", "Inv_NoLoss", "Inv_Bounded", "Inv_NoEmptyChunk", "Inv_ChunkerClosedForm"]
STRATS = {"recursive": "c_StratRecursive", "fixed": "c_StratFixed", "code": "c_StratCode", "markdown": "c_StratMarkdown", "chunker": "c_StratChunker"}


def split_consts(strats, maxlen, alpha="c_Alpha"):
    return {"Strats": "<- " + strats, "Alpha": "<- " + alpha, "MaxLen": maxlen, "Sizes": "<- c_Sizes5", "MaxOvExtra": 1}


def split_full(binary, name, consts, workers, timeout):
    """TLC over the whole bounded case space with the property (no loss, size+overlap bound for every
    overlap) as invariants + termination of the chunker loop; replay of EVERY emitted case."""
    cfg = make_cfg("FairSpec", consts, SPLIT_INVS, ["Prop_ChunkerVariant", "Prop_Terminates"])
    r = run_tlc("MC_Split", name + ".cfg", cfg_text=cfg, workers=workers, timeout=timeout)
    lines = corpus_lines(r)
    r.corpus = []
    rep = run_binary(binary, "split", lines, shards=8) if r.ok else merge_reports([])
    return name, r, len(lines), rep


def part_split(binary, tier):
    p = Part("split")
    quick = tier == "quick"
    jobs = []
    with cf.ThreadPoolExecutor(max_workers=3 if quick else 4) as ex:
        if quick:
            jobs.append(ex.submit(split_full, binary, "Split_all_len5", split_consts("c_StratsAll", 5, "c_AlphaQuick"), 6, 1500))
        else:
            for s in ("code", "recursive", "markdown", "fixed", "chunker"):   # the slowest first
                jobs.append(ex.submit(split_full, binary, "Split_%s_len7" % s, split_consts(STRATS[s], 7, "c_AlphaQuick" if s in ("fixed", "chunker") else "c_Alpha"),
                                      6 if s == "code" else 4, 6000))
            for s in ("code", "markdown"):
                jobs.append(ex.submit(split_full, binary, "Split_%s_wide_len5" % s, split_consts(STRATS[s], 5, "c_AlphaWide"), 4, 6000))
        for j in jobs:
            name, r, n, rep = j.result()
            p.tlc.append((name, r))
            p.reports.append(("split", (), rep))
            p.info[name] = {"cases_emitted": n, "cases_replayed": rep.get("cases", 0), "per_strategy": rep.get("per_strategy", {})}
            if r.ok and rep.get("cases", 0) != n:
                p.infra.append("%s: %d cases emitted but %d replayed" % (name, n, rep.get("cases", 0)))
            if r.violated:
                p.infra.append("TLC: %s violated in %s (the transcription itself breaks the property; reproduce on the code, then "
                               "fix the code or the specification):\n%s" % (r.violated, name, "\n".join(r.trace[-1:])[:1500]))
    return p


# --------------------------------------------------------------------------------------------
# part 2: Compress.tla

PROBE_SRC = r'''
package textanalyzer

import (
	"encoding/json"
	"os"
	"sort"
	"testing"
)

// TestVerifC20Vocab dumps the analyzer's own word lists and its answers on a candidate
// lexicon (injected by /verif/tools/check_C20.py through `go test -overlay`).
func TestVerifC20Vocab(t *testing.T) {
	out := os.Getenv("C20_VOCAB_OUT")
	if out == "" {
		t.Skip("C20_VOCAB_OUT not set")
	}
	var cand []string
	if err := json.Unmarshal([]byte(os.Getenv("C20_LEXICON")), &cand); err != nil {
		t.Fatal(err)
	}
	keys := func(m map[string]struct{}) []string {
		ks := make([]string, 0, len(m))
		for k := range m {
			ks = append(ks, k)
		}
		sort.Strings(ks)
		return ks
	}
	type ans struct {
		Important bool `json:"important"`
		StopEN    bool `json:"stop_en"`
		StopIT    bool `json:"stop_it"`
	}
	res := struct {
		SafeEN []string       `json:"safe_en"`
		SafeIT []string       `json:"safe_it"`
		Words  map[string]ans `json:"words"`
	}{keys(englishSafeStopWords), keys(italianSafeStopWords), map[string]ans{}}
	all := append(append(append([]string{}, cand...), res.SafeEN...), res.SafeIT...)
	for _, w := range all {
		res.Words[w] = ans{isImportantWord(w), isStopWord(w, "english"), isStopWord(w, "italian")}
	}
	b, _ := json.Marshal(res)
	if err := os.WriteFile(out, b, 0o644); err != nil {
		t.Fatal(err)
	}
}
'''

# The PROPERTY's side of the vocabulary: what counts as a negation / a logical connective.
# Starts from the words the package documents as "must preserve" (compressor.go, README.md) and
# adds the other standard ones of both languages. Language independent: a text may mix both.
NEGATIONS = ["not", "no", "never", "none", "nothing", "neither", "nobody", "nowhere", "cannot", "don't", "doesn't", "isn't", "won't", "can't",
             "non", "mai", "né", "nulla", "niente", "nessuno", "nessuna", "neanche", "nemmeno", "neppure"]
CONNECTIVES = ["and", "or", "but", "if", "unless", "nor", "xor", "iff", "then", "else", "either", "except", "implies",
               "e", "ed", "o", "od", "oppure", "ma", "però", "se", "bensì", "tuttavia", "ovvero", "altrimenti", "allora", "eccetto", "tranne", "qualora"]
OTHER = ["only", "all", "every", "each", "any", "a", "i", "solo", "soltanto", "tutti", "tutte", "ogni", "ciascuno", "sono", "sia", "siano",   # probably "important", not logical
         "database", "vector", "Fuffi".lower(), "search", "42", "state-of-the-art", "cane", "lavoro", "sviluppatore", "città", "perché", "x"]
PUNCT = [",", ".", ";", ":", "!", "?", "(", ")", "\"", "\u2026", "\u2014", "[", "/"]


def probe_vocabulary():
    d = vlib.scratch("c20-vocab-")
    try:
        out = os.path.join(d, "vocab.json")
        rc, log = vlib.go_test_overlay("pkg/textanalyzer", {"verif_c20_vocab_test.go": PROBE_SRC}, run="TestVerifC20Vocab",
                                       extra_env={"C20_VOCAB_OUT": out, "C20_LEXICON": json.dumps(NEGATIONS + CONNECTIVES + OTHER)})
        if rc != 0 or not os.path.exists(out):
            raise Infra("probing the analyzer's word lists failed:\n" + log[-3000:])
        with open(out) as f:
            return json.load(f)
    finally:
        shutil.rmtree(d, ignore_errors=True)


def build_vocab(probe):
    """kind = [s|-][i|-][n|c|-] per effective language; also checks the abstraction itself:
    isStopWord(w, lang) must equal (w in safe[lang] and not important)."""
    langs, bad = {}, []
    for lang, safe_key, stop_key in (("english", "safe_en", "stop_en"), ("italian", "safe_it", "stop_it")):
        safe = set(probe[safe_key])
        kinds = {}
        for w, a in probe["words"].items():
            k = ("s" if w in safe else "-") + ("i" if a["important"] else "-") + ("n" if w in NEGATIONS else "c" if w in CONNECTIVES else "-")
            kinds.setdefault(k, []).append(w)
            if a[stop_key] != (w in safe and not a["important"]):
                bad.append("%s/%s: isStopWord=%s safe=%s important=%s" % (lang, w, a[stop_key], w in safe, a["important"]))
        langs[lang] = {k: sorted(v) for k, v in kinds.items()}
    return {"langs": langs, "punct": PUNCT}, bad


def part_compress(binary, tier):
    p = Part("compress")
    quick = tier == "quick"
    probe = probe_vocabulary()
    vocab, bad = build_vocab(probe)
    if bad:
        p.infra.append("Compress.tla abstraction (stop = safe-list member that is not important) contradicted by the probe: " + "; ".join(bad[:5]))
    kset = lambda lang: "{" + ", ".join('"%s"' % k for k in sorted(vocab["langs"][lang]) + ["punct"]) + "}"
    p.info["kinds"] = {lang: {k: len(v) for k, v in ks.items()} for lang, ks in vocab["langs"].items()}
    p.info["word_lists"] = {"englishSafeStopWords": len(probe["safe_en"]), "italianSafeStopWords": len(probe["safe_it"]),
                            "negation_lexicon": len(NEGATIONS), "connective_lexicon": len(CONNECTIVES)}
    d = vlib.scratch("c20-vocabfile-")
    try:
        vf = os.path.join(d, "vocab.json")
        with open(vf, "w") as f:
            json.dump(vocab, f)
        runs = [("Compress_len4", '{"english", "it", ""}' if quick else '{"english", "en", "eng", "", "italian", "it", "ita", "IT", "fr"}', 4)]
        if not quick:
            runs.append(("Compress_len5", '{"en", "italian"}', 5))
        for name, tags, n in runs:
            cfg = make_cfg("Spec", {"KindsEN": kset("english"), "KindsIT": kset("italian"), "LangTags": tags, "MaxToks": n},
                           ["Inv_KeepsLogic", "Inv_Order"], [])
            r = run_tlc("Compress", name + ".cfg", cfg_text=cfg, workers=4, timeout=1800, extra=["-dumpTrace", "json", os.path.join(d, name + ".trace")])
            if r.violated:
                # a kind that breaks the property exists in the real word lists: replay the counterexample, then
                # enumerate without the invariant so that every case still reaches the real code
                p.expected_cex.append((name, r))
                cfg = make_cfg("Spec", {"KindsEN": kset("english"), "KindsIT": kset("italian"), "LangTags": tags, "MaxToks": n}, ["Inv_Order"], [])
                r = run_tlc("Compress", name + "_enum.cfg", cfg_text=cfg, workers=4, timeout=1800)
            p.tlc.append((name, r))
            lines = corpus_lines(r)
            r.corpus = []
            args = ("-vocab", vf, "-seed", str(vlib.seed()), "-rounds", "2" if quick else "3")
            rep = run_binary(binary, "compress", lines, extra_args=args, shards=8)
            p.reports.append(("compress", ("-vocab", "@vocab"), rep))
            p.info[name] = {"cases_emitted": len(lines), "cases_replayed": rep.get("cases", 0), "real_runs": rep.get("runs", 0)}
            if r.ok and rep.get("cases", 0) != len(lines):
                p.infra.append("%s: %d cases emitted but %d replayed" % (name, len(lines), rep.get("cases", 0)))
    finally:
        shutil.rmtree(d, ignore_errors=True)
    p.info["vocab"] = vocab
    return p


# --------------------------------------------------------------------------------------------
# part 3: Adaptive.tla

ADAPT_INVS = ["Inv_Depth", "Inv_ExpandAboveLimit", "Inv_Cap", "Inv_Budget", "Inv_BudgetTable", "Inv_Variant", "Inv_NoBetterPath", "Inv_Once"]
PROFILES = {  # mirrors of MC_Adaptive.tla
    "c_Prof3": [{"tok": [1, 2, 1], "doc": ["d1", "d1", "d2"]}, {"tok": [2, 0, 3], "doc": ["d1", "d2", ""]}],
    "c_Prof3One": [{"tok": [1, 2, 1], "doc": ["d1", "d1", "d2"]}],
    "c_Prof2": [{"tok": [1, 2], "doc": ["d1", "d1"]}, {"tok": [2, 1], "doc": ["d1", ""]}],
    "c_Prof4": [{"tok": [1, 2, 1, 3], "doc": ["d1", "d1", "d2", ""]}, {"tok": [2, 0, 3, 1], "doc": ["d1", "d2", "d2", "d1"]}],
    "c_Prof4One": [{"tok": [1, 2, 1, 3], "doc": ["d1", "d1", "d2", ""]}],
}


def adaptive_cfgs(tier):
    quick = tier == "quick"
    base = dict(Nodes="<- c_N3", Ghosts="<- c_NoGhost", Rels="<- c_Rels1", TargetSets="<- c_T3All", SeedSeqs="<- c_Seeds3",
                Strategies="<- c_Graph", Depths="{1, 2}", Caps="{1, 3}", Budgets="{2}", EmitBudgets="{1, 2, 4}", Profiles="<- c_Prof3")
    two = dict(Nodes="<- c_N2", Ghosts="<- c_Ghost9", Rels="<- c_Rels2", TargetSets="<- c_T2G", SeedSeqs="<- c_Seeds2G",
               Strategies="<- c_Both", Depths="{2}", Caps="{2, 3}", Budgets="{2}", EmitBudgets="{1, 2, 3}", Profiles="<- c_Prof2")
    if quick:
        return [("Adaptive_3nodes_allgraphs", base, 6), ("Adaptive_2rel_ghost_bothstrategies", dict(two, TargetSets="<- c_T2GSmall"), 4)]
    return [
        ("Adaptive_3nodes_allgraphs", dict(base, Caps="{1, 2, 3, 4}", Strategies="<- c_Both", Budgets="{2, 4}"), 6),
        ("Adaptive_2rel_ghost_bothstrategies", dict(two, Depths="{1, 2}", Caps="{1, 2, 3, 4}"), 4),
        ("Adaptive_3nodes_2rel_ghost", dict(Nodes="<- c_N3", Ghosts="<- c_Ghost9", Rels="<- c_Rels2", TargetSets="<- c_T3GDeg1", SeedSeqs="<- c_Seeds3GFew",
                                            Strategies="<- c_Graph", Depths="{2}", Caps="{2, 4}", Budgets="{3}", EmitBudgets="{1, 3}", Profiles="<- c_Prof3"), 6),
        ("Adaptive_4nodes_deg2_hubs", dict(Nodes="<- c_N4", Ghosts="<- c_NoGhost", Rels="<- c_Rels1", TargetSets="<- c_T4Deg2Hub", SeedSeqs="<- c_Seeds4",
                                           Strategies="<- c_Graph", Depths="{2, 3}", Caps="{3, 5}", Budgets="{4}", EmitBudgets="{2, 4, 7}", Profiles="<- c_Prof4One"), 8),
    ]


def group_adaptive(corpus):
    cases = {}
    for r in corpus:
        key = json.dumps([r["g"], r["seeds"], r["strat"], r["limit"], r["cap"]])
        c = cases.get(key)
        if c is None:
            c = cases[key] = {"g": r["g"], "seeds": r["seeds"], "strat": r["strat"], "limit": r["limit"], "cap": r["cap"], "alts": []}
        c["alts"].append({"rel": r["rel"], "get": r["get"], "asm": r["asm"]})
    return [json.dumps(c, separators=(",", ":")) for c in cases.values()]


def adaptive_meta(consts):
    return {"profiles": PROFILES[consts["Profiles"].replace("<- ", "")],
            "ghosts": [9] if consts["Ghosts"] == "<- c_Ghost9" else [],
            "rels": ["next", "mentions"] if consts["Rels"] == "<- c_Rels2" else ["next"]}


def adaptive_one(binary, name, consts, workers):
    cfg = make_cfg("FairSpec", consts, ADAPT_INVS, ["Prop_Progress", "Prop_Terminates"])
    r = run_tlc("MC_Adaptive", name + ".cfg", cfg_text=cfg, workers=workers, timeout=6000)
    recs = [json.loads(x) for x in corpus_lines(r)]
    lines = group_adaptive(recs)
    nrec = len(recs)
    r.corpus = []
    d = vlib.scratch("c20-ameta-")
    try:
        mf = os.path.join(d, "meta.json")
        meta = adaptive_meta(consts)
        with open(mf, "w") as f:
            json.dump(meta, f)
        rep = run_binary(binary, "adaptive", lines, extra_args=("-meta", mf, "-seed", str(vlib.seed()), "-rounds", "2"), shards=8) if r.ok else merge_reports([])
    finally:
        shutil.rmtree(d, ignore_errors=True)
    return name, r, nrec, len(lines), rep


def part_adaptive(binary, tier):
    p = Part("adaptive")
    with cf.ThreadPoolExecutor(max_workers=3) as ex:
        jobs = [ex.submit(adaptive_one, binary, name, consts, w) for name, consts, w in adaptive_cfgs(tier)]
        for j in jobs:
            name, r, nrec, ncases, rep = j.result()
            p.tlc.append((name, r))
            p.reports.append(("adaptive", (), rep))
            p.info[name] = {"terminal_states_emitted": nrec, "retrievals": ncases, "cases_replayed": rep.get("cases", 0), "real_runs": rep.get("runs", 0)}
            if r.ok and rep.get("cases", 0) != ncases:
                p.infra.append("%s: %d cases emitted but %d replayed" % (name, ncases, rep.get("cases", 0)))
            if r.violated:
                p.infra.append("TLC: %s violated in %s:\n%s" % (r.violated, name, "\n".join(r.trace[-1:])[:2000]))
    return p


# --------------------------------------------------------------------------------------------
# part 4: exploration (NOT model checking)

def part_explore(binary, tier):
    p = Part("explore")
    n = 400 if tier == "quick" else 4000
    shards = 4 if tier == "quick" else 8
    d = vlib.scratch("c20-explore-")
    try:
        procs = []
        for i in range(shards):
            fout = os.path.join(d, "out%d.json" % i)
            procs.append((subprocess.Popen([binary, "explore", "-out", fout, "-seed", str(vlib.seed() * 1000 + i), "-n", str(n // shards)],
                                           stdout=subprocess.PIPE, stderr=subprocess.PIPE, text=True), fout))
        reps = []
        for pr, fout in procs:
            so, se = pr.communicate(timeout=3000)
            if pr.returncode != 0:
                raise Infra("c20 explore failed rc=%s\n%s" % (pr.returncode, se[-3000:]))
            with open(fout) as f:
                reps.append(json.load(f))
        rep = merge_reports(reps)
        rep["longest_input_bytes"] = max(r.get("longest_input_bytes", 0) for r in reps)
    finally:
        shutil.rmtree(d, ignore_errors=True)
    p.reports.append(("explore", (), rep))
    p.info = {k: v for k, v in rep.items() if k not in ("groups", "samples")}
    return p


# --------------------------------------------------------------------------------------------

def run(tier):
    chk = Check(PROP, tier)
    binary = vlib.build_harness(cmd="c20")
    parts = []
    with cf.ThreadPoolExecutor(max_workers=4) as ex:
        def timed(f):
            t0 = time.time()
            p = f(binary, tier)
            p.info["wall_s"] = round(time.time() - t0, 1)
            return p
        futs = [ex.submit(timed, f) for f in (part_split, part_adaptive, part_compress, part_explore)]
        errs = []
        for f in futs:
            try:
                parts.append(f.result())
            except Infra as e:
                errs.append(str(e))
        if errs:
            raise Infra("\n".join(errs))
    cov = chk.cov
    cov["parts"] = {}
    model_cases = 0
    for p in parts:
        for name, r in p.tlc:
            chk.add_tlc(name, r)
        for name, r in p.expected_cex:
            cov["tlc_runs"].append({"config": name, "distinct_states": r.distinct, "states_generated": r.generated, "wall_s": round(r.wall, 1),
                                    "ok": False, "counterexample_of": r.violated, "note": "strict invariant; counterexample executed on the real code", "cmd": r.cmd})
        chk.infra += p.infra
        for subcmd, args, rep in p.reports:
            origin = "seeded arbitrary input (exploration)" if subcmd == "explore" else "TLC-enumerated case"
            judge(chk, p.name, subcmd, args, rep, origin)
            if subcmd != "explore":
                runs = rep.get("runs", rep.get("cases", 0))
                model_cases += runs
                cov["evaluations"] += rep.get("checks", 0)
                cov["distinct_nontrivial"] += rep.get("nontrivial", 0)
                if sum(1 for x in cov["samples"] if x.get("part") == p.name) < 2:
                    cov["samples"] += [dict(x, part=p.name) for x in rep.get("samples", [])[:1]]
        info = dict(p.info)
        info.pop("vocab", None)
        cov["parts"][p.name] = info
    cov["traces_validated_against_impl"] = model_cases
    rs = cov.pop("_reported_sigs", {})
    if rs:
        cov["violating_cases_by_signature"] = rs
    cov["exhaustive"] = True
    cov["rule"] = ("every case TLC enumerated within the bounds (split: every text x strategy x size x overlap; compress: every kind sequence x language tag, "
                   "refined to real words %s times; adaptive: every graph x seeds x depth x cap, each tabulated budget/profile run twice) is executed on the real "
                   "code. Non-trivial = split: the real output has >= 2 chunks; compress: a word was dropped and a negation/connective was present; "
                   "adaptive: at least one expansion and a budget cut." % ("2" if tier == "quick" else "3"))
    ex = cov["parts"].get("explore", {})
    cov["exploration_not_model_checking"] = {
        "what": "seeded arbitrary byte strings (invalid UTF-8, empty, long, mixed scripts, suffix-heavy words) through Tokenize, both stemmers' Analyze, "
                "Compress, CompressionRatio, every splitter strategy and FixedSizeChunker, twice each, under a panic/timeout guard; NOT model checking, no coverage claim",
        "inputs": ex.get("inputs", 0), "calls": ex.get("calls", 0), "invalid_utf8_inputs": ex.get("invalid_utf8_inputs", 0),
        "longest_input_bytes": ex.get("longest_input_bytes", 0)}
    if model_cases == 0:
        chk.infra.append("vacuous: no case was replayed on the real code")
    chk.assumptions += [
        "splitting is specified over a tiny alphabet (x, y, space, newline, '#', and the keywords func/type as units), texts of <= %s symbols, sizes 1..5, overlaps 0..size+1; "
        "nothing is claimed about longer texts or other characters except through the exploration part" % ("5" if tier == "quick" else "7"),
        "no-loss is the conservative reading: the non-whitespace characters of the input form a subsequence of the chunks laid end to end (duplication and added characters allowed)",
        "FixedSizeChunker with overlap >= size documents 'the entire text as a single chunk': the size+overlap bound is not demanded there (no loss and totality are)",
        "termination of the recursive splitter is structural in the transcription (each RECURSIVE operator descends on a shorter sequence) and observed on the code under a 30 s guard per call; "
        "FixedSizeChunker and the BFS loop are step machines with a checked variant and <>done under weak fairness",
        "negation / connective vocabulary is the check's lexicon (the words compressor.go documents as preserved plus the usual ones of English and Italian); which words are stop words / "
        "'important' is probed from the analyzer at run time",
        "adaptive retrieval: token accounting is the implementation's own unit (sum over chunks of int(len(content)/CharsPerToken)); the separators of ContextText are not counted; "
        "depth is graph distance from the seed set over the allowed relations; node cap = no VGetRelations call once the number of distinct fetched ids reached MaxExpansionNodes "
        "(every strategy; seeds themselves are always fetched)",
        "Go iterates relation maps and equal-score documents in unspecified order: the specification admits every order, the real run must match one of them",
    ]
    return chk.finish()


def replay_file(path):
    with open(path) as f:
        rec = json.load(f)
    binary = vlib.build_harness(cmd="c20")
    sub, case = rec["part"], rec["case"]
    d = vlib.scratch("c20-rp-")
    try:
        args = []
        if sub == "explore" and not (isinstance(case, dict) and "st" in case):
            # an analysis call (Tokenize / Analyze / Compress) on a recorded arbitrary input
            fout = os.path.join(d, "out.json")
            pr = subprocess.run([binary, "explore", "-hex", case.get("hex", ""), "-out", fout], capture_output=True, text=True, timeout=600)
            if pr.returncode != 0:
                raise Infra("c20 explore -hex failed: " + pr.stderr[-2000:])
            with open(fout) as f:
                rep = json.load(f)
            return finish_replay(rec, path, case, rep)
        if sub == "explore":   # a raw split case found by the exploration
            sub = "split"
        if sub == "adaptive":
            mf = os.path.join(d, "meta.json")
            with open(mf, "w") as f:
                json.dump(case["meta"], f)
            args = ["-meta", mf]
            case = case["case"]
        rep = run_binary(binary, sub, [json.dumps(case)], extra_args=args, shards=1)
    finally:
        shutil.rmtree(d, ignore_errors=True)
    return finish_replay(rec, path, case, rep)


def finish_replay(rec, path, case, rep):
    groups = rep.get("groups", [])
    print(json.dumps({"case": case, "divergences": [{"sig": g["sig"], "detail": g["examples"][0].get("detail"), "diff": g["examples"][0].get("diff")} for g in groups]}, indent=1))
    if any(g["kind"] == rec.get("kind") for g in groups) or (groups and not rec.get("kind")):
        print("VIOLATION property=%s replay=%s" % (PROP, path))
        return vlib.EXIT_VIOLATION
    print("replay: the recorded divergence does not occur on the current tree")
    return vlib.EXIT_OK


def main():
    if len(sys.argv) > 2 and sys.argv[1] == "--replay":
        vlib.main_wrapper(lambda: replay_file(sys.argv[2]))
    tier = sys.argv[1] if len(sys.argv) > 1 else os.environ.get("VERIF_TIER", "quick")
    if tier not in ("quick", "thorough"):
        print("usage: check_C20.py quick|thorough | --replay <path>", file=sys.stderr)
        sys.exit(vlib.EXIT_INFRA)
    vlib.main_wrapper(lambda: run(tier))


if __name__ == "__main__":
    main()
