#!/usr/bin/env python3
"""Regenerates the generated parts of DESIGN.md (between <!-- BEGIN:x --> / <!-- END:x --> markers):
   FIXES   table of `fix:` commits of /repo with the property each belongs to (known_findings.json)
   OPEN    table of open known findings
   SEEDED  which check catches which seeded change (seeded/<id>/meta.json)"""
import glob, json, os, re, subprocess
HERE = os.path.dirname(os.path.dirname(os.path.abspath(__file__)))


def fixes():
    kf = json.load(open(os.path.join(HERE, "known_findings.json")))["findings"]
    by_commit = {}
    for f in kf:
        if f.get("status") == "fixed" and f.get("commit"):
            for c in re.split(r"[,\s]+", f["commit"]):
                if c:
                    by_commit.setdefault(c[:7], []).append(f)
    log = subprocess.run(["git", "-C", "/repo", "log", "--reverse", "--format=%h\t%s", "--grep", "^fix:"], capture_output=True, text=True).stdout
    rows = ["| commit | property | what the commit does (subject) | finding |", "|---|---|---|---|"]
    for ln in log.splitlines():
        h, subj = ln.split("\t", 1)
        fs = by_commit.get(h[:7], [])
        props = ", ".join(sorted({f["property"] for f in fs})) or "—"
        ids = ", ".join(f["id"] for f in fs) or "—"
        rows.append("| `%s` | %s | %s | %s |" % (h, props, subj[len("fix:"):].strip().replace("|", "\\|"), ids))
    return "\n".join(rows)


def open_findings():
    kf = json.load(open(os.path.join(HERE, "known_findings.json")))["findings"]
    rows = ["| id | property | what fails | why not repaired |", "|---|---|---|---|"]
    for f in kf:
        if f.get("status") == "open":
            rows.append("| %s | %s | %s | %s |" % (f["id"], f["property"], f["what"].replace("|", "\\|"), f.get("why_open", "").replace("|", "\\|")))
    return "\n".join(rows)


def seeded():
    rows = ["| seeded change | aimed at | what it changes | needs, to manifest | caught by (quick tier) | run but silent |", "|---|---|---|---|---|---|"]
    n = caught = nobs = 0
    for d in sorted(glob.glob(os.path.join(HERE, "seeded", "*"))):
        mp = os.path.join(d, "meta.json")
        if not os.path.exists(mp):
            continue
        m = json.load(open(mp))
        n += 1
        cb = m.get("caught_by") or []
        rc = m.get("recheck") or {}
        obsolete = bool(rc.get("obsolete")) and not rc.get("caught_by")
        if obsolete:
            nobs += 1
            cb_txt = "(was: %s) *neutralised by a later repair: its demonstration passes with the change applied to the current tree*" % (", ".join(cb) or "—")
        else:
            caught += bool(cb)
            cb_txt = ", ".join(cb) or "**none**"
            if m.get("ported"):
                cb_txt += " (ported)"
        silent = [c for c in (m.get("checks_run") or {}) if c not in cb]
        cut = lambda s, k: (s[:k] + "…") if len(s) > k else s
        rows.append("| `%s` | %s | %s | %s | %s | %s |" % (os.path.basename(d), m.get("property", ""), cut(m.get("title", ""), 140).replace("|", "\\|"),
                                                     cut(m.get("needs_to_manifest", ""), 260).replace("|", "\\|").replace("\n", " "),
                                                     cb_txt, ", ".join(silent) or "—"))
    return ("%d seeded changes confirmed by the main session (compile, pass the existing tests, demonstration fails with / passes without the change); "
            "on the current tree (last `tools/seeded_recheck.py` run) %d are caught by at least one registered check, %d no longer break anything "
            "(a later repair at another site neutralised them), %d are not caught.\n\n%s" % (n, caught, nobs, n - caught - nobs, "\n".join(rows)))


def main():
    p = os.path.join(HERE, "DESIGN.md")
    s = open(p).read()
    for key, fn in (("FIXES", fixes), ("OPEN", open_findings), ("SEEDED", seeded)):
        pat = re.compile(r"(<!-- BEGIN:%s -->\n).*?(\n<!-- END:%s -->)" % (key, key), re.S)
        if not pat.search(s):
            raise SystemExit("marker %s missing in DESIGN.md" % key)
        s = pat.sub(lambda m: m.group(1) + fn() + m.group(2), s)
    open(p, "w").write(s)


if __name__ == "__main__":
    main()
