#!/usr/bin/env python3
"""Checks decided by spec/Kektor.tla (the sequential engine model):
   C01 clean restart, C04 map-of-records refinement, C05 rejected operations.
Each check (1) model-checks the specification with TLC, (2) lets TLC emit a corpus of
behaviours (BFS state cover + random walks), (3) replays them on the real engine built from
/repo's working tree, comparing the full projection after every step."""
import json, os, random, sys
sys.path.insert(0, os.path.dirname(os.path.abspath(__file__)))
import vlib
from vlib import Check, make_cfg, run_tlc, Infra

# ---------------------------------------------------------------------------- model profiles

BASE = {
    "Keys": "<- c_Keys1", "KVals": "<- c_KVals2", "Names": "<- c_Names1", "Ids": "<- c_Ids2", "Vecs": "<- c_Vecs2",
    "MKeys": "<- c_MKeys1", "MVals": "<- c_MVals2", "Cfgs": "<- c_CfgsA", "Maints": "<- c_Maints1", "ALs": "<- c_ALs1",
    "Targets": "<- c_Targets", "GNodes": "<- c_Empty", "Rels": "<- c_Empty", "Ws": "<- c_Empty", "Ps": "<- c_Empty",
    "GName": '"ix"', "CoreVacuum": "FALSE", "Seeded": "FALSE", "Imports": "FALSE", "Evolves": "FALSE", "Connections": "FALSE", "AccSeeds": "<- c_Empty", "SeedGraph": "FALSE", "SeedMV": '"nil"', "SeedTail": "TRUE", "SeedMaint": '"nil"', "Devs": "<- c_Empty", "MaxFile": 3, "MaxCtr": 3, "MaxAcc": 1, "MaxVer": 2, "MaxOps": 5, "MaxRej": 2,
}

GRAPH = dict(BASE, **{
    "Keys": "<- c_Empty", "KVals": "<- c_Empty", "Cfgs": "<- c_CfgsB", "Maints": "<- c_Maints2", "ALs": "<- c_Empty",
    "Targets": "<- c_Empty", "MVals": "<- c_MVals1", "Vecs": "<- c_Vecs2",
    "GNodes": "<- c_GNodes3", "Rels": "<- c_Rels1", "Ws": "<- c_Ws2", "Ps": "<- c_Ps2", "MaxFile": 4, "MaxOps": 5,
})
# smaller graph universe for exhaustive runs of the quick tier
GRAPH_Q = dict(GRAPH, **{"GNodes": "<- c_GNodes2", "Ps": "<- c_Ps1", "Ids": "<- c_Ids1"})
# histories that start from an index already holding vectors a and b (no KV): three further operations reach
# "snapshot; delete; re-add" and similar patterns that need six operations from the empty state
SEEDED_BASE = dict(BASE, **{"Seeded": "TRUE", "Keys": "<- c_Empty", "KVals": "<- c_Empty", "MaxFile": 7, "MaxRej": 0,
                            "AccSeeds": "<- c_Acc1", "MaxAcc": 2})
ADMIN_OPS = ("SaveSnapshot", "RewriteAOF", "VCompress")
PASSIVE_OPS = ADMIN_OPS + ("Refine", "Vacuum", "Reopen")


def admin_then_write(ops):
    names = [o.get("op") for o in ops[3:]]
    for i, nm in enumerate(names):
        if nm in ADMIN_OPS and any(x not in PASSIVE_OPS for x in names[i + 1:]):
            return True
    return False


# three ids, no configuration variety: "delete two, batch-add two" next to a third live id exercises the
# id reservation of the batch path (reachable with efConstruction = 2 in harness variant 1)
SEEDED_IDS3 = dict(SEEDED_BASE, **{"Ids": "<- c_Ids3", "MaxCtr": 6, "MaxFile": 8, "Cfgs": "<- c_CfgsB", "Maints": "<- c_Empty",
                                   "ALs": "<- c_Empty", "Targets": "<- c_Empty", "MVals": "<- c_MVals1"})
# five ids: with M = 2 (harness variant 1) the index is beyond the exact regime (2*M nodes), where AddBatch takes its block path
SEEDED_IDS5 = dict(SEEDED_IDS3, **{"Ids": "<- c_Ids5", "MaxCtr": 8, "MaxFile": 10, "AccSeeds": "<- c_Empty", "MaxAcc": 1, "Vecs": "<- c_Vecs2"})


# C12: behaviours start from an index holding vectors a and b, so deletes are reachable within short histories
SEEDED = dict(GRAPH, **{"Seeded": "TRUE", "Ps": "<- c_Ps1", "Ws": "<- c_Ws1", "Maints": "<- c_Empty"})

# bulk import (not journaled; committed by a snapshot) and wrong-dimension vectors
IMPORT = dict(SEEDED_BASE, **{"Imports": "TRUE", "Vecs": "<- c_Vecs2b", "MaxRej": 1, "Maints": "<- c_Empty", "ALs": "<- c_Empty",
                              "Targets": "<- c_Empty", "MaxCtr": 5, "MaxFile": 7})
# VEvolve on the seeded graph: the minted id is the model id "g"
EVOLVE = dict(SEEDED, **{"Evolves": "TRUE", "Ids": "<- c_Ids3g", "Vecs": "<- c_Vecs1b", "MaxRej": 1, "MaxCtr": 5, "MaxFile": 12})

# the seed also holds an edge history (a->b linked, soft-unlinked, re-linked; b->g): deletes and restarts on top of it
SEEDED_G = dict(SEEDED, **{"SeedGraph": "TRUE", "MaxFile": 12, "MaxVer": 3})

# auto-link rule on the seeded graph index: an insertion whose metadata names a node creates (and journals) an edge
AUTOLINK = dict(SEEDED, **{"ALs": "<- c_ALk", "MVals": "<- c_MValsN", "Ids": "<- c_Ids3g", "MaxCtr": 6, "MaxFile": 12, "MaxVer": 3})

# every metric x precision configuration the engine accepts (float32/float16 euclidean, float32/int8 cosine, memory on/off)
CFGALL = dict(BASE, **{"Cfgs": "<- c_CfgsAll", "Keys": "<- c_Empty", "KVals": "<- c_Empty", "Maints": "<- c_Empty", "ALs": "<- c_Empty",
                       "MVals": "<- c_MVals1", "MaxFile": 5})

# hydration (VGetConnections) with its self-repair, on the seeded graph: the seed's b->g points at a node that is no vector
HYDRATE = dict(SEEDED_G, **{"Connections": "TRUE"})

# graph retention configured in the seed (graph vacuum runs) and a vector (b) that has incoming edges only
SEEDED_RET = dict(SEEDED_G, **{"SeedTail": "FALSE", "SeedMaint": '"mc2"', "Maints": "<- c_Maints2"})

# import from an empty database: snapshot first, then import + commit with no journaled write in between
# configurations the index constructor refuses next to a valid one: a refused create must leave nothing behind (its
# journal record used to shadow a later valid create of the same name after a restart)
BADCFG = dict(BASE, **{"Cfgs": "<- c_CfgsBad", "Keys": "<- c_Empty", "KVals": "<- c_Empty", "Maints": "<- c_Empty", "ALs": "<- c_Empty",
                       "Targets": "<- c_Empty", "MVals": "<- c_MVals1", "Vecs": "<- c_Vecs1b", "MaxFile": 5, "MaxRej": 2})
# the key-value store alone (no index can be created): every history of five (quick) / seven (thorough) calls
KVONLY = dict(BASE, **{"Cfgs": "<- c_Empty", "Ids": "<- c_Empty", "Maints": "<- c_Empty", "ALs": "<- c_Empty", "Targets": "<- c_Empty",
                       "MaxFile": 6, "MaxRej": 0})
IMPORT0 = dict(BASE, **{"Imports": "TRUE", "Keys": "<- c_Empty", "KVals": "<- c_Empty", "Cfgs": "<- c_CfgsB", "Maints": "<- c_Empty",
                        "ALs": "<- c_Empty", "Targets": "<- c_Empty", "MVals": "<- c_MVals1", "MaxFile": 5, "MaxRej": 0, "MaxCtr": 4})

INVS = ["Inv_CleanRestart", "Inv_RestartIdempotent", "Inv_IdMaps", "Inv_ListedIsReadable", "Inv_FwdRevAgree", "Inv_OneActive", "Inv_NoEdgeToDead"]
PROPS = ["Prop_RejectedNoChange", "Prop_MaintenanceInvisible", "Prop_ReopenIdentity", "Prop_DeleteTouchesOnlyIncident"]


def profile_for(consts, variant=0, dim=3):
    """Harness-side universe matching the constant sets of the model profile."""
    sets = {
        "c_Empty": [], "c_Keys1": ["k1"], "c_Names1": ["ix"], "c_Names2": ["ix", "iy"], "c_Ids2": ["a", "b"],
        "c_Ids3": ["a", "b", "c"], "c_Ids3g": ["a", "b", "g"], "c_Ids5": ["a", "b", "c", "d", "e"], "c_Ids1": ["a"], "c_MKeys1": ["k"], "c_GNodes3": ["a", "b", "g"], "c_GNodes2": ["a", "g"], "c_Rels1": ["r"], "c_Rels2": ["r", "q"],
    }
    g = lambda k: sets[consts[k].replace("<- ", "")]
    return {"keys": g("Keys"), "names": g("Names"), "ids": g("Ids"), "mkeys": g("MKeys"), "gnodes": g("GNodes"),
            "rels": g("Rels"), "gname": consts["GName"].strip('"'), "dim": dim, "variant": variant,
            "no_final_restarts": consts.get("CoreVacuum") == "TRUE"}


def model_check(chk, name, consts, workers=None, timeout=900, spec=None):
    # thorough tier: SpecG (behaviours cut at MaxOps inside the next-state relation; same states, last level not expanded)
    spec = spec or ("Spec" if chk.tier == "quick" else "SpecG")
    cfg = make_cfg(spec, consts, INVS, PROPS, constraint="Bound", view="View")
    r = run_tlc("MC_Kektor", name + ".cfg", cfg_text=cfg, workers=workers, timeout=timeout)
    chk.add_tlc(name, r)
    if r.violated:
        chk.infra.append("TLC: %s violated in %s (design-level counterexample, to be reproduced on the code):\n%s" % (
            r.violated, name, "\n".join(r.trace[-3:])[:3000]))
    return r


def corpus(chk, name, consts, simulate=None, depth=None, workers=4, timeout=900, rejleaf=False, view=None, spec="SpecCorpus"):
    cfg = make_cfg(spec, consts, [], [], constraint="BoundRejLeaf" if rejleaf else "Bound", view=view or ("ViewRej" if rejleaf else "View"))
    if not simulate and chk.tier == "quick":
        # one worker: BFS is then deterministic (with several workers which history reaches a state first varies from
        # run to run, and with it the corpus); the corpus specifications do not expand the last level, so this is fast
        workers = 1
    r = run_tlc("MC_Kektor", name + ".cfg", cfg_text=cfg, workers=workers, timeout=timeout,
                simulate=simulate, depth=depth, seed_=vlib.seed() if simulate else None)
    if not simulate:
        chk.add_tlc(name, r)
    else:
        chk.cov["tlc_runs"].append({"config": name, "mode": "simulate", "walks": simulate, "depth": depth,
                                    "corpus_records": len(r.corpus), "wall_s": round(r.wall, 1)})
    if not r.corpus:
        raise Infra("corpus run %s produced no behaviours:\n%s" % (name, r.raw_tail))
    return r.corpus


def replay(chk, consts, behaviours, variants=(0,), dims=(3,)):
    binary = vlib.build_harness()
    allres = []
    for variant in variants:
        for dim in dims:
            prof = profile_for(consts, variant, dim)
            res = vlib.run_sharded(binary, "engine", prof, behaviours)
            for e in res.get("errors", []):
                chk.infra.append("replay error: " + e)
            res["profile"] = prof
            allres.append(res)
            chk.cov["traces_validated_against_impl"] += res.get("behaviours", 0)
            chk.cov["evaluations"] += res.get("checks", 0)
    return allres


OWNER = {
    # divergence kind -> owning property (see DESIGN.md 5, attribution)
    "reopen_changed_state": "C01", "open_failed": "C01", "rejected_changed_state": "C05",
}


def graph_only(div):
    d = div.get("diff") or []
    return bool(d) and all(x.startswith("obs.g") for x in d)


def owner_of(div, beh):
    """Which properties a divergence belongs to.  One defect is normally reported under one id; the
    exception is persistence of the graph, which both C01 (restart reproduces edges, history and timestamps)
    and C10/C12 (all of this survives restart and compaction) state."""
    kind = div["kind"]
    op = div.get("op") or {}
    name = op.get("op")
    if kind == "edge_to_deleted_node":
        return {"C12"}
    if kind == "rejected_changed_state" or (kind in ("model_mismatch", "result_mismatch") and op.get("res") == "err"):
        return {"C05"}
    if graph_only(div):
        deleted_before = beh and any(s["op"].get("op") in ("VDelete", "VDeleteCut", "VDeleteSnapCut") and s["op"].get("res") == "ok"
                                     for s in beh["steps"][: div.get("step", 0) + 1])
        if name in ("VDelete", "VDeleteCut", "VDeleteSnapCut"):
            return {"C12"}
        if name == "Reopen":
            return {"C01", "C12" if deleted_before else "C10"}
        return {"C10"}
    if kind in OWNER:
        return {OWNER[kind]}
    if kind == "model_mismatch" and name == "Reopen":
        return {"C01"}
    return {"C04"}


def without_rejected(beh, upto):
    steps = [s for i, s in enumerate(beh["steps"]) if i > upto or s["op"].get("res") != "err"]
    return {"id": beh["id"] + "-norej", "steps": [{"op": s["op"], "exp": None} for s in steps]}


def judge(chk, prop, consts, behaviours, results):
    """Attribute divergences to properties; report those owned by `prop`."""
    bmap = {b["id"]: b for b in behaviours}
    binary = vlib.build_harness()
    reported = 0
    for res in results:
        for div in res.get("divergences", []):
            beh = bmap.get(div["id"])
            own = owner_of(div, beh)
            # a restart that changes state after a rejected call: blame the rejection (C05) iff the
            # same history without the rejected calls restarts cleanly
            if (div["kind"] == "reopen_changed_state" or (div["kind"] == "model_mismatch" and (div.get("op") or {}).get("op") == "Reopen")) and beh and any(
                    s["op"].get("res") == "err" for s in beh["steps"][: div["step"]]):
                alt = without_rejected(beh, div["step"])
                r2 = vlib.run_sharded(binary, "engine", res["profile"], [alt], shards=1)
                if not [d for d in r2.get("divergences", []) if d["kind"] in ("reopen_changed_state", "open_failed")]:
                    own = {"C05"}
            if prop not in own:
                continue
            kf = vlib.match_known(prop, div, beh)
            if kf:
                chk.known.append((kf["id"], kf["what"]))
                continue
            reported += 1
            if reported <= 25:
                what = "%s at step %d (%s) of %s\n%s" % (div["kind"], div["step"], json.dumps(div.get("op")),
                                                        json.dumps([s["op"] for s in beh["steps"]]) if beh else "?",
                                                        "\n".join((div.get("diff") or [div.get("detail", "")])[:12]))
                chk.violation(what, {"property": prop, "checker": "engine", "profile": res["profile"],
                                     "behaviour": beh, "divergence": div})


GRAPH_OPS = ("VLink", "VUnlink", "GraphVacuum", "GraphVacuumAt")


def nontrivial(prop, ops):
    names = [o.get("op") for o in ops]
    if prop == "C01":
        return "Reopen" in names and len(names) >= 2
    if prop == "C05":
        return any(o.get("res") == "err" for o in ops)
    if prop == "C10":
        return sum(1 for n in names if n in GRAPH_OPS) >= 2
    if prop == "C12":
        return any(o.get("op") in ("VDelete", "VDeleteCut", "VDeleteSnapCut") and o.get("res") == "ok" for o in ops) and "VLink" in names
    return len(names) >= 2


RULES = {"C01": "contains a Reopen after at least one write", "C05": "contains a rejected call",
         "C04": "at least two operations", "C10": "at least two link/unlink/graph-vacuum operations",
         "C12": "a successful VDelete of a node in a graph that has at least one link"}


def run(prop, tier):
    chk = Check(prop, tier)
    rng = random.Random(vlib.seed())
    quick = tier == "quick"
    base = dict(BASE)
    graph = dict(GRAPH)
    use_base = prop in ("C01", "C04", "C05")
    use_graph = prop in ("C01", "C10")
    need = lambda ops: nontrivial(prop, ops)
    plans = []   # (constants, behaviours)
    # 1. design level: TLC on the sequential engine model;  2. corpus: BFS state cover + random walks
    if use_base:
        model_check(chk, "MC_Kektor_base", dict(base, MaxOps=4 if quick else 5), timeout=600 if quick else 1800)
        cb = corpus(chk, "MC_Kektor_base_corpus", dict(base, MaxOps=3 if quick else 4), workers=4)
        cs = corpus(chk, "MC_Kektor_base_walks", dict(base, MaxOps=12, MaxFile=6, MaxCtr=4, MaxRej=2),
                    simulate=150 if quick else 1500, depth=12, workers=1)
        b1, _ = vlib.behaviours_from_corpus(cb, max_behaviours=(250 if prop != "C01" or not use_graph else 150) if quick else 6000, rng=rng, need=need)
        b2, _ = vlib.behaviours_from_corpus(cs, max_behaviours=150 if quick else 1500, rng=rng, need=need)
        for i, b in enumerate(b2):
            b["id"] = "w%d" % i
        plans.append((base, b1 + b2))
    if use_base:
        # seeded histories: persistence procedure followed by writes (C01), everything (C04), rejected calls (C05)
        sb = dict(SEEDED_BASE, MaxOps=3 if quick else 4, MaxRej=1 if prop == "C05" else 0)
        cbs = corpus(chk, "MC_Kektor_seeded_base_corpus", sb, workers=8, timeout=3000)
        pick = {"C01": admin_then_write, "C04": lambda ops: len(ops) > 4, "C05": need}[prop]
        b3, _ = vlib.behaviours_from_corpus(cbs, max_behaviours=350 if quick else 20000, rng=rng, need=pick)
        for i, b in enumerate(b3):
            b["id"] = "sb%d" % i
        plans.append((sb, b3))
    if prop in ("C01", "C04"):
        # the seeded vectors carry metadata: an index dropped and created again under the same name must not inherit
        # anything (per-index maps keyed by the name and the insertion ordinal) -- drop, create, add without metadata
        sm = dict(SEEDED_BASE, SeedMV='"m1"', MaxOps=3 if quick else 4)
        csm = corpus(chk, "MC_Kektor_seeded_meta_corpus", sm, workers=8, timeout=3000)
        def recreated(ops):
            names = [o.get("op") for o in ops[3:] if o.get("res") == "ok"]
            return "VDeleteIndex" in names and "VCreate" in names[names.index("VDeleteIndex"):]
        bsm, _ = vlib.behaviours_from_corpus(csm, max_behaviours=250 if quick else 20000, rng=rng, need=recreated,
                                             stratum=lambda ops: tuple(o.get("op") for o in ops[3:]))
        for i, b in enumerate(bsm):
            b["id"] = "sm%d" % i
        plans.append((sm, bsm))
    if prop in ("C04", "C05"):
        # an entity added without a vector: stored as a zero vector while a live vector fixes the dimension, refused otherwise
        nv = dict(SEEDED_BASE, Vecs="<- c_Vecs1n", MaxOps=3 if quick else 4, MaxRej=1)
        novec = lambda ops: any(o.get("op") == "VAdd" and o.get("vec") == "vnone" for o in ops[3:])
        cnv = corpus(chk, "MC_Kektor_novec_corpus", nv, workers=8, timeout=3000)
        bnv, _ = vlib.behaviours_from_corpus(cnv, max_behaviours=100 if quick else 5000, rng=rng, need=novec)
        # every (state, refused call) pair: "delete every vector, then add an entity without a vector" is one of them
        cnr = corpus(chk, "MC_Kektor_novec_rejected", nv, workers=8, timeout=3000, rejleaf=True)
        bnr, _ = vlib.behaviours_from_corpus(cnr, max_behaviours=100 if quick else 5000, rng=rng,
                                             need=lambda ops: ops[-1].get("res") == "err" and ops[-1].get("vec") == "vnone",
                                             stratum=lambda ops: tuple(o.get("op") for o in ops[3:-1]))
        for i, b in enumerate(bnr):
            b["id"] = "nr%d" % i
        bnv = bnv + bnr
        for i, b in enumerate(bnv):
            b["id"] = "nv%d" % i
        plans.append((nv, bnv))
    if prop == "C04":
        s3 = dict(SEEDED_IDS5, MaxOps=3 if quick else 4)
        c3 = corpus(chk, "MC_Kektor_seeded_ids5_corpus", s3, workers=8, timeout=3000)
        b4, _ = vlib.behaviours_from_corpus(c3, max_behaviours=300 if quick else 20000, rng=rng,
                                            need=lambda ops: any(o.get("op") == "VAddBatch" and o.get("res") == "ok" for o in ops[6:]))
        for i, b in enumerate(b4):
            b["id"] = "s3_%d" % i
        plans.append((s3, b4))
        # the same on an int8 index: its quantizer was trained by the seed; a block-path batch must not re-encode
        # (or re-scale) what is already stored -- the replayer compares the exact vectors of untouched ids
        s8 = dict(SEEDED_IDS5, MaxOps=3 if quick else 4, Cfgs="<- c_CfgsI8")
        c8 = corpus(chk, "MC_Kektor_seeded_ids5_int8_corpus", s8, workers=8, timeout=3000)
        b8, _ = vlib.behaviours_from_corpus(c8, max_behaviours=200 if quick else 20000, rng=rng,
                                            need=lambda ops: any(o.get("op") == "VAddBatch" and o.get("res") == "ok" for o in ops[6:]))
        for i, b in enumerate(b8):
            b["id"] = "s8_%d" % i
        plans.append((s8, b8))
    if use_base:
        # bulk import (VImport is not journaled, VImportCommit snapshots) and wrong-dimension vectors
        imp = dict(IMPORT, MaxOps=2 if quick else 3, MaxRej=0)
        ci = corpus(chk, "MC_Kektor_import_corpus", imp, workers=8, timeout=3000)
        b5, _ = vlib.behaviours_from_corpus(ci, max_behaviours=200 if quick else 20000, rng=rng,
                                            need=lambda ops: any(o.get("op") in ("VImport", "VImportCommit") for o in ops[3:]))
        for i, b in enumerate(b5):
            b["id"] = "im%d" % i
        plans.append((imp, b5))
    if use_base:
        bc_ = dict(BADCFG, MaxOps=3 if quick else 4)
        # (random walks: a refused call leaves the state where it was, so BFS never continues a history through one)
        cbad = corpus(chk, "MC_Kektor_badcfg_walks", dict(bc_, MaxOps=7, MaxFile=7, MaxCtr=5), simulate=300 if quick else 6000, depth=7, workers=1)
        refused_cfg = lambda ops: any(o.get("op") == "VCreate" and o.get("cfg") in ("c16", "ei8") for o in ops[:-1])
        bb, _ = vlib.behaviours_from_corpus(cbad, max_behaviours=150 if quick else 5000, rng=rng, need=refused_cfg)
        for i, b in enumerate(bb):
            b["id"] = "bc%d" % i
        plans.append((bc_, bb))
    if prop in ("C01", "C04"):
        # the transition corpus of the KV-only profile: the first-found history of every state extended by every call --
        # "set, snapshot, set again, delete" (the delete of a key that is both in the image and in the log) is in it
        kv = dict(KVONLY, MaxOps=5 if quick else 7, MaxFile=6 if quick else 8)
        ckv = corpus(chk, "MC_Kektor_kvonly_trans", kv, spec="SpecCorpusT", timeout=3000)
        bkv, _ = vlib.behaviours_from_corpus(ckv, max_behaviours=2500 if quick else 40000, rng=rng, need=lambda ops: len(ops) >= 3)
        for i, b in enumerate(bkv):
            b["id"] = "kv%d" % i
        plans.append((kv, bkv))
    if prop in ("C01", "C04"):
        i0 = dict(IMPORT0, MaxOps=4 if quick else 5)
        c0 = corpus(chk, "MC_Kektor_import0_corpus", i0, workers=8, timeout=3000)
        def import_class(ops):
            # "a persistence procedure (or a restart) directly before the import, and the import committed":
            # nothing journaled between the image and the import
            names = [o.get("op") for o in ops]
            for i, nm in enumerate(names):
                if nm == "VImport" and i > 0 and names[i - 1] in ("SaveSnapshot", "RewriteAOF", "Reopen", "VCompress", "VImportCommit", "VDeleteCut", "VDeleteSnapCut") \
                        and "VImportCommit" in names[i + 1:]:
                    return "admin_then_import"
            return "other"
        b0, _ = vlib.behaviours_from_corpus(c0, max_behaviours=200 if quick else 20000, rng=rng, stratum=import_class,
                                            need=lambda ops: any(o.get("op") == "VImportCommit" and o.get("res") == "ok" for o in ops))
        # BFS keeps one history per state, so "snapshot, then import + commit" (same final state as the shorter
        # "import + commit") is in no first-found history: the transition corpus has it
        w0 = corpus(chk, "MC_Kektor_import0_trans", dict(IMPORT0, MaxOps=4), spec="SpecCorpusT")
        bw, _ = vlib.behaviours_from_corpus(w0, max_behaviours=150 if quick else 6000, rng=rng,
                                            need=lambda ops: import_class(ops) == "admin_then_import")
        for i, b in enumerate(b0):
            b["id"] = "i0_%d" % i
        for i, b in enumerate(bw):
            b["id"] = "i0w_%d" % i
        plans.append((i0, b0 + bw))
    if prop == "C05":
        # every (reachable state, rejected call) pair: the rejected call is the last step, the replayer appends restarts
        last_rej = lambda ops: ops[-1].get("res") == "err"
        # stratum: the kind of the rejected call, the reason it can be refused for (a wrong-dimension vector), and the kinds
        # of call that shaped the state it is refused in (a refused evolve of a node WITH incoming edges differs from one without)
        def kind_of(ops):
            last = ops[-1]
            bad = "vbad" in (last.get("vec"), last.get("v1"), last.get("v2"))
            before = tuple(sorted({o.get("op") for o in ops[:-1] if o.get("res") == "ok" and o.get("op") not in ("VCreate", "VAdd")}))
            node = last.get("old") or last.get("id") or last.get("id1")
            linked = tuple(sorted({"in" if o.get("t") == node else "out" for o in ops[:-1]
                                   if o.get("op") == "VLink" and o.get("res") == "ok" and node in (o.get("s"), o.get("t"))}))
            return (last.get("op"), bad, before, linked)
        for nm, prof, mo in (("base", BASE, 2 if quick else 3), ("seeded_base", SEEDED_BASE, 2 if quick else 3),
                             ("import", IMPORT, 2 if quick else 3), ("evolve", EVOLVE, 2),
                             # on top of an edge history (incl. an edge to a node that is no vector): refused deletes, links ...
                             ("seeded_graph", SEEDED_G, 1 if quick else 2)):
            pr = dict(prof, MaxOps=mo, MaxRej=1)
            cr = corpus(chk, "MC_Kektor_rejected_" + nm, pr, workers=8, timeout=3000, rejleaf=True)
            br, _ = vlib.behaviours_from_corpus(cr, max_behaviours=300 if quick else 60000, rng=rng, need=last_rej, stratum=kind_of)
            for i, b in enumerate(br):
                b["id"] = "rj_%s%d" % (nm, i)
            plans.append((pr, br))
    if prop in ("C01", "C04", "C10", "C12"):
        # VEvolve on the seeded graph (incoming edges copied, superseded_by/evolves_from, historical flag)
        ev = dict(EVOLVE, MaxOps=2, MaxRej=0)
        if not quick:
            model_check(chk, "MC_Kektor_evolve", ev, timeout=3000)
        ce = corpus(chk, "MC_Kektor_evolve_corpus", ev, workers=8, timeout=3000)
        cw = corpus(chk, "MC_Kektor_evolve_walks", dict(EVOLVE, MaxOps=9, MaxFile=16, MaxCtr=6, MaxRej=0, MaxVer=3),
                    simulate=300 if quick else 3000, depth=9, workers=1)
        has_ev = lambda ops: any(o.get("op") == "VEvolve" and o.get("res") == "ok" for o in ops)
        if prop == "C12":
            has_ev = lambda ops: any(o.get("op") == "VEvolve" and o.get("res") == "ok" for o in ops) and any(
                o.get("op") in ("VDelete", "VDeleteCut", "VDeleteSnapCut") and o.get("res") == "ok" for o in ops[3:])
        b6, _ = vlib.behaviours_from_corpus(ce, max_behaviours=100 if quick else 5000, rng=rng, need=has_ev)
        b7, _ = vlib.behaviours_from_corpus(cw, max_behaviours=60 if quick else 1500, rng=rng, need=has_ev)
        for i, b in enumerate(b6):
            b["id"] = "ev%d" % i
        for i, b in enumerate(b7):
            b["id"] = "evw%d" % i
        plans.append((ev, b6 + b7))
    if use_graph:
        if quick:
            if prop != "C01":      # C01's quick tier leaves the design-level graph run to C10 (same module, same invariants)
                model_check(chk, "MC_Kektor_graph", dict(GRAPH_Q, MaxOps=3), timeout=900)
        else:
            # SpecG cuts the behaviours inside the next-state relation, so the last (largest) level is not expanded:
            # all histories of <= 4 calls on the small graph universe, <= 3 calls on the full one
            # (the constraint-only form of the same bounds did not finish in 90 minutes next to other runs)
            model_check(chk, "MC_Kektor_graph_small", dict(GRAPH_Q, MaxOps=4), timeout=5400, spec="SpecG")
            model_check(chk, "MC_Kektor_graph", dict(graph, MaxOps=3), timeout=5400, spec="SpecG")
        cb = corpus(chk, "MC_Kektor_graph_corpus", dict(graph, MaxOps=2 if quick else 3), workers=4)
        cs = corpus(chk, "MC_Kektor_graph_walks", dict(graph, MaxOps=12, MaxFile=8, MaxCtr=4, MaxRej=1, MaxVer=3),
                    simulate=200 if quick else 2000, depth=12, workers=1)
        b1, _ = vlib.behaviours_from_corpus(cb, max_behaviours=150 if quick else 5000, rng=rng, need=need)
        b2, _ = vlib.behaviours_from_corpus(cs, max_behaviours=150 if quick else 2000, rng=rng, need=need)
        for i, b in enumerate(b1):
            b["id"] = "g%d" % i
        for i, b in enumerate(b2):
            b["id"] = "gw%d" % i
        plans.append((graph, b1 + b2))
    if prop == "C12":
        model_check(chk, "MC_Kektor_seeded", dict(SEEDED, MaxOps=3 if quick else 4), timeout=900 if quick else 3000)
        cb = corpus(chk, "MC_Kektor_seeded_corpus", dict(SEEDED, MaxOps=3 if quick else 4), workers=4, timeout=1800)
        cs = corpus(chk, "MC_Kektor_seeded_walks", dict(SEEDED, MaxOps=10, MaxFile=12, MaxCtr=5, MaxRej=1, MaxVer=3),
                    simulate=200 if quick else 2000, depth=10, workers=1)
        b1, _ = vlib.behaviours_from_corpus(cb, max_behaviours=200 if quick else 6000, rng=rng, need=need)
        b2, _ = vlib.behaviours_from_corpus(cs, max_behaviours=100 if quick else 2000, rng=rng, need=need)
        for i, b in enumerate(b1):
            b["id"] = "s%d" % i
        for i, b in enumerate(b2):
            b["id"] = "sw%d" % i
        plans.append((SEEDED, b1 + b2))
    if prop in ("C01", "C04"):
        ca_ = dict(CFGALL, MaxOps=3 if quick else 4)
        cc = corpus(chk, "MC_Kektor_allconfigs_corpus", ca_, workers=8, timeout=3000)
        bc, _ = vlib.behaviours_from_corpus(cc, max_behaviours=150 if quick else 20000, rng=rng,
                                            need=(lambda ops: "Reopen" in [o.get("op") for o in ops] or len(ops) >= 3) if prop == "C01" else (lambda ops: len(ops) >= 2))
        for i, b in enumerate(bc):
            b["id"] = "cf%d" % i
        plans.append((ca_, bc))
    if prop in ("C01", "C04", "C10"):
        # auto-link rule on the index: insertions whose metadata names a node create and journal an edge
        al = dict(AUTOLINK, MaxOps=1 if quick else 2, MaxRej=0)
        if not quick:
            model_check(chk, "MC_Kektor_autolink", al, timeout=3000)
        ca = corpus(chk, "MC_Kektor_autolink_corpus", al, workers=8, timeout=3000)
        fires = lambda ops: any(o.get("op") in ("VAdd", "VAddBatch") and o.get("res") == "ok" and (o.get("meta") or {}).get("k") not in (None, "nil") for o in ops[4:])
        b9, _ = vlib.behaviours_from_corpus(ca, max_behaviours=80 if quick else 6000, rng=rng, need=fires)
        for i, b in enumerate(b9):
            b["id"] = "al%d" % i
        plans.append((al, b9))
    if prop in ("C12", "C10", "C01"):
        sg = dict(SEEDED_G, MaxOps=2 if quick else 3)
        if not quick:
            model_check(chk, "MC_Kektor_seeded_graph", sg, timeout=3000)
        cg = corpus(chk, "MC_Kektor_seeded_graph_corpus", sg, workers=8, timeout=3000)
        pick = {"C12": lambda ops: any(o.get("op") in ("VDelete", "VDeleteCut", "VDeleteSnapCut") and o.get("res") == "ok" for o in ops[7:]),
                "C10": lambda ops: len(ops) > 7, "C01": lambda ops: len(ops) > 7}[prop]
        b8, _ = vlib.behaviours_from_corpus(cg, max_behaviours=150 if quick else 8000, rng=rng, need=pick)
        for i, b in enumerate(b8):
            b["id"] = "sg%d" % i
        plans.append((sg, b8))
    if prop in ("C10", "C12"):
        # graph vacuum (retention configured in the seed) before / after deletes; b has incoming edges only
        rt = dict(SEEDED_RET, MaxOps=2 if quick else 3)
        cr_ = corpus(chk, "MC_Kektor_retention_corpus", rt, workers=8, timeout=5400)
        br, _ = vlib.behaviours_from_corpus(cr_, max_behaviours=120 if quick else 8000, rng=rng,
                                            need=lambda ops: any(o.get("op") == "GraphVacuum" for o in ops[6:]))
        for i, b in enumerate(br):
            b["id"] = "rt%d" % i
        plans.append((rt, br))
    if prop == "C10":
        # core.DB.VacuumGraph with EVERY horizon the history offers (GraphVacuumAt; not an engine call, not journaled, so no
        # restarts in this plan): a horizon inside the lifetime of a soft-deleted or superseded version keeps that version
        # in the forward AND the reverse view
        cv = dict(SEEDED_G, CoreVacuum="TRUE", MaxOps=2 if quick else 3)
        # (transition corpus: a vacuum that must remove nothing leaves the state where it was and is in no first-found history)
        ccv = corpus(chk, "MC_Kektor_corevacuum_trans", cv, workers=8, timeout=3000, spec="SpecCorpusT")
        bcv, _ = vlib.behaviours_from_corpus(ccv, max_behaviours=150 if quick else 8000, rng=rng,
                                             need=lambda ops: any(o.get("op") == "GraphVacuumAt" for o in ops),
                                             stratum=lambda ops: tuple((o.get("op"), o.get("cutoff")) for o in ops[7:]))
        for i, b in enumerate(bcv):
            b["id"] = "cv%d" % i
        plans.append((cv, bcv))
    if prop in ("C10", "C12"):
        # hydration: VGetConnections returns live vectors only and soft-unlinks (journaled) the targets that are none
        hy = dict(HYDRATE, MaxOps=2 if quick else 3)
        if not quick:
            model_check(chk, "MC_Kektor_hydrate", hy, timeout=5400)
        ch = corpus(chk, "MC_Kektor_hydrate_corpus", hy, workers=8, timeout=5400, view="ViewConn")
        bh, _ = vlib.behaviours_from_corpus(ch, max_behaviours=120 if quick else 8000, rng=rng,
                                            need=lambda ops: any(o.get("op") == "VGetConnections" for o in ops[7:]))
        for i, b in enumerate(bh):
            b["id"] = "hy%d" % i
        plans.append((hy, bh))
    total = sum(len(b) for _, b in plans)
    chk.cov["distinct_nontrivial"] = total
    chk.cov["rule"] = ("behaviours = leaves of the prefix tree of TLC's corpus (BFS: one shortest history per reachable state; "
                       "simulation: random walks), kept when non-trivial for %s (%s); every behaviour is executed on the real engine "
                       "with the full projection compared after every step" % (prop, RULES[prop]))
    chk.cov["samples"] = [[s["op"] for s in b["steps"]] for _, bs in plans for b in bs[:2]]
    if total == 0:
        chk.infra.append("no non-trivial behaviour in the corpus")
    # 3. binding: replay on the real engine
    variants = (vlib.seed() % 3,) if quick else (0, 1, 2)
    if prop == "C04" and quick:
        variants = (1,)     # efConstruction 2: both insertion paths of AddBatch are exercised
    if prop == "C12" and quick:
        variants = tuple(sorted({vlib.seed() % 3, 2}))   # variant 2: ids that contain the engine's "::" separator
    # vector dimension of the refinement: 3 or 5 (by seed) in the quick tier, 3 and 17 in the thorough tier
    dims = ((3, 5)[vlib.seed() % 2],) if quick else (3, 17)
    for consts, behaviours in plans:
        results = replay(chk, consts, behaviours, variants=variants, dims=dims)
        judge(chk, prop, consts, behaviours, results)
    chk.assumptions += [
        "constants of the model are small (2 ids, 2 vectors, 1 metadata key, 1 index, 1 KV key; graph: 3 nodes, 1 relation, 2 weights, 2 property maps); larger data only through the refinement (dimension, value types)",
        "background maintenance/auto-save timers are disabled during replay; maintenance runs only where the behaviour asks for it",
        "edge timestamps are compared up to order (rank), never as absolute wall-clock values",
    ]
    return chk.finish()


def replay_file(prop, path):
    """Re-execute a recorded violation and print the first diverging step with both projections."""
    rec = json.load(open(path))
    binary = vlib.build_harness()
    res = vlib.run_sharded(binary, "engine", rec["profile"], [rec["behaviour"]], shards=1)
    divs = res.get("divergences", [])
    print(json.dumps({"behaviour": [s["op"] for s in rec["behaviour"]["steps"]], "divergences": divs}, indent=1))
    if divs:
        print("VIOLATION property=%s replay=%s" % (prop, path))
        return vlib.EXIT_VIOLATION
    print("replay: no divergence on the current tree")
    return vlib.EXIT_OK


def main(prop):
    if len(sys.argv) > 2 and sys.argv[1] == "--replay":
        vlib.main_wrapper(lambda: replay_file(prop, sys.argv[2]))
    tier = sys.argv[1] if len(sys.argv) > 1 else os.environ.get("VERIF_TIER", "quick")
    vlib.main_wrapper(lambda: run(prop, tier))


if __name__ == "__main__":
    main(sys.argv.pop(1))
