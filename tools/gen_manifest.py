#!/usr/bin/env python3
"""Regenerates /verif/MANIFEST.json from the table below (single source of truth for what is claimed)."""
import json, os
HERE = os.path.dirname(os.path.dirname(os.path.abspath(__file__)))

MC = "model_checking"
CHECKS = {
 "C01": dict(engine="kektor-engine", technique="TLC on Kektor.tla (Inv_CleanRestart in every state) + replay of TLC behaviours on the real engine, projection compared after every step and across every Reopen",
   text="TLC enumerates every history of the sequential engine model within small constants and evaluates 'recover(disk) = memory' in every state; behaviours emitted by TLC (BFS state cover + random walks) are executed on the real engine and the complete observable projection is compared after each step, before/after each restart and after two extra restarts.",
   note="Trusted: the refinement of abstract tokens into concrete values (harness/internal/eng), TLC. Model constants are small; larger data only via the refinement. Concurrency excluded here (C13/C14).", ref="6 C01"),
 "C04": dict(engine="kektor-engine", technique="TLC on Kektor.tla (implementation-shaped index vs. projection, Inv_IdMaps, Prop_MaintenanceInvisible) + forward replay with full read-interface comparison",
   text="The spec carries the implementation-shaped index (internal ids, tombstones, id maps, vacuum, rebuild) next to the map-of-records projection; TLC checks they agree in every reachable state and the replayer compares every read (get, get-many, cursor listing, count, info, KV) of the real engine with the projection after every step.",
   note="Trusted: refinement tables, TLC. Search results are C06/C07.", ref="6 C04"),
 "C05": dict(engine="kektor-engine", technique="TLC on Kektor.tla (Prop_RejectedNoChange, Inv_CleanRestart after rejected steps) + replay: real projection before = after every call that returned an error, and across a later restart (delta-debugged attribution)",
   text="Every rejected call is an explicit spec action; TLC checks that it changes nothing and that a restart afterwards still reproduces the state. On the real engine each rejected call is followed by a full projection comparison, and a restart that changes state is blamed on the rejection iff the same history without the rejected calls restarts cleanly.",
   note="Error causes modelled: duplicate id (alone, in batch, repeated in batch), unknown index, unknown node, duplicate index name, unsupported/unknown compression target, compress of empty index.", ref="6 C05"),
}

CHECKS.update({
 "C10": dict(engine="kektor-engine", technique="TLC on Kektor.tla graph profile (Inv_FwdRevAgree, Inv_OneActive, Inv_CleanRestart with edge versions) + replay of TLC behaviours on the real engine comparing all stored versions, as-of queries at every timestamp boundary, forward/reverse views",
   text="The spec transcribes AddEdge/RemoveEdge/VacuumGraph (forward versions + reverse entries) and the graph part of snapshot, replay and compaction; TLC checks forward/reverse agreement and restart invariance over all link/unlink/vacuum histories within the bound; TLC behaviours are replayed on the real engine and the version set plus the answers of the forward and reverse query interfaces at every boundary are compared (timestamps up to order).",
   note="Timestamps are compared by rank only. 3 nodes, 1 relation, 2 weights, 2 property maps; inverse relation = same relation name.", ref="6 C10"),
 "C12": dict(engine="kektor-engine", technique="TLC on Kektor.tla seeded graph profile (Inv_NoEdgeToDead, Prop_DeleteTouchesOnlyIncident, VDeleteCut = cascade cut by shutdown + restart) + replay with the cascade goroutine held at a hook while the engine is closed",
   text="Delete cascade and its replay repair are spec actions; TLC checks that no active edge created before a delete touches the deleted node, live and after restart, including the case where shutdown cuts the cascade before it unlinked anything; behaviours are replayed on the real engine (the cut is forced with a blocking hook at cascade.start).",
   note="Cascade is modelled as settled before the next client step except in VDeleteCut; interleaving of client links with a running cascade is not enumerated (C13).", ref="6 C12"),
 "C14": dict(engine="kektor-writer", technique="TLC on Writer.tla (clients journal/apply split x lazy writer goroutine x SaveSnapshot/RewriteAOF phases x Flush x Close; Inv_NoAckedLoss, Inv_Conservation, Prop_FlushCovers) + complete TLC behaviours forced onto the real engine with blocking hooks, then Close/Open and acked-vs-recovered comparison",
   text="Every interleaving at channel-operation granularity within 2 clients x 1-3 versions x 1-2 admin procedures is checked by TLC; each complete behaviour is replayed as a forced schedule on the real engine (clients parked between journal and apply, admin goroutine parked between phases) and acknowledged writes are compared with what a restart reads.",
   note="Writer-internal steps (Recv, Tick) are left to the Go scheduler during replay. The journal/apply gap at Begin (former KF-C14-1, repaired by 1e83c14) is kept as the configuration CaptureWaits=FALSE whose counterexample TLC must still find; the faithful configuration has CaptureWaits=TRUE. Also: Prop_FlushCovers on the real LazyAOFWriter with maxBufferSize 1-3 (wflush), a snapshot failing after Begin (A_Fail), capture.kv event bound to A_Capture.", ref="6 C14"),
 "C15": dict(engine="decay", technique="TLC on Decay.tla (decay factor as exact/bound case analysis; Inv_FnLaws, Inv_MemLaws; Reinforce machine) + one implementation test per TLC state: unexported decay functions via go test -overlay, twin memories and Reinforce behaviours on a real engine",
   text="TLC enumerates the product of ages, half-lives, access counts, models, pinned forms, layer situations and number types, checks bounds/monotonicity/model points/reinforcement laws on the spec's own rational table and emits every state; each is executed on the real code and compared with exact expectations or order constraints.",
   note="Ebbinghaus and unknown models by bounds/order only. Similarity itself is C18. Built by a sub-agent; see its report in DESIGN.md.", ref="6 C15"),
 "C19": dict(engine="http-conformance", technique="TLC on Http.tla (request pipeline over route shapes derived from the current tree x mutation classes; file-system model Touched within Subtree(dataDir)) + every TLC case refined into concrete requests on the real handler chain; recovery marker, state digest around each 4xx, sentinel tree outside the data directory hashed after every request and restart",
   text="TLC enumerates route shape x mutation class and all file-system behaviours within bounds and checks the required outcome on the reference design; every case is executed against the real server for every route of its shape.",
   note="Member values inside a class are sampled (seeded); handlers called in-process; routes outside the claim listed in evidence. Built by a sub-agent.", ref="6 C19"),
})

CHECKS["C16"] = dict(engine="http-auth",
  technique="TLC on Auth.tla (request product token x route shape x target index x resource-name class x body shape: policy vs. reference monitor - Inv_Safe, Inv_Live, Inv_OnlyAuthentic, Inv_ReadNeverMutates, Inv_WriteNeverAdmin, Inv_NsNeverOther; restart machine issue/revoke/snapshot/compaction/restart - Inv_RevokedStaysRevoked, Inv_IssuedKeepsWorking, Inv_KeyStable) + every TLC case sent as concrete requests through the full server.NewServer handler chain on a real engine, judged by status class AND engine state delta AND foreign-namespace markers; every TLC history replayed with real Close/Open restarts",
  text="TLC enumerates all 16 936 cases and all restart histories up to 5 operations (plus random walks), checks the headline statements of the property on the reference monitor and emits each case/history with the required outcome; each is executed on the real server and served/denied, state change and data leak are compared with the model.",
  note="Trusted: the class table mapping routes to spec shapes (harness/cmd/vauth/table.go, exit 2 on an unmapped route), TLC. Routes whose index a middleware cannot determine have outcome 'any'. Handler chain called in process; crash restarts not modelled. Built by a sub-agent.",
  ref="6 C16")

CHECKS["C13"] = dict(engine="kektor-conc",
  technique="TLC on Conc.tla (read-modify-write cycles of VReinforce/VSetMetadata under the per-node lock; diagnostic run without the lock must show the lost update) + traces of the real engine under concurrent load (race-detector build, seeded yields at hook points, varying GOMAXPROCS, snapshot/compaction/vacuum/refine/index create+delete/stalled subscriber/Close in the middle) validated by TLC against Trace_Conc.tla",
  text="The specification decides per-item atomicity (every acknowledged reinforcement counted exactly once in lock order, every merged key kept, KV reads return written values, mutating calls after Close fail, every call returns); each recorded trace of the real engine is explained by TLC event by event. Data-race reports of the race detector, panics and calls that never return on those executions are violations observed on real code.",
  note="Schedules are those the Go scheduler produces (not exhaustive). Data races are decided by the race detector, not by the spec. Gardener goroutines are not started.", ref="6 C13")
CHECKS["C18"] = dict(engine="arena-kernels",
  technique="TLC on Arena.tla (injective slot table, free/used disjoint, Read(id)=val[id] after every action incl. every compaction step, cycle termination) + forward replay of TLC behaviours on a real mmap.VectorArena (22 MB slots, 3 per 64 MB chunk, real AsyncCompactor.RunCycle); concurrent GetBytes readers during real cycles; TLC on Kernels.tla, one real kernel/quantiser/hnsw call per TLC state compared with exact integers",
  text="Arena.tla is checked exhaustively for histories up to 6-8 operations over 4-5 ids, 2/3/4 slots per chunk; every TLC-emitted behaviour is executed on the real arena with slot table, free-list order, chunk files, bytes of every physical slot and GetBytes of every id compared after every step. Kernels.tla enumerates the integer/dyadic lattice; every state is executed on the real kernels, quantiser and hnsw read-back.",
  note="Not decided: tolerance bounds over general float magnitudes and 'perturbs rankings only among near-ties' for general data (lattice instances only). Pure-Go build only. Open findings KF-C18-1/2 are API level (the engine never calls FreeSlot). Built by a sub-agent.", ref="6 C18")

CHECKS["C17"] = dict(engine="gateway",
  technique="TLC on Gateway.tla (documented ServeHTTP pipeline vs. the admission/cache/invalidation requirement, five sensitivity canaries) + replay of TLC's transition-cover and random-walk histories on a real proxy.AIProxy, every step compared (status, upstream count, served answer, cache index contents)",
  text="TLC enumerates every history of the gateway decision machine within small bounds and checks Blocked <=> fw and (pattern or d<thr) regardless of marker, refused/hit => no upstream call, hit <=> fresh entry within the cache distance, Invalidate removes exactly the citing entries; the histories are executed on the real AIProxy over real engine indexes (cosine and euclidean, gateway-created and operator-created cache index, prompt/messages shapes, multi-turn decoys, mixed case) and every step is compared.",
  note="Trusted: stub embedder/upstream/rewriter; the refinement position->vector (proved at start-up against the real kernels, >=20% margin); TTL advanced by rewriting created_at; sequential histories only. Built by a sub-agent.", ref="6 C17")

CHECKS["C03"] = dict(engine="aof-codec",
  technique="TLC on Codec.tla (SpecRT: Parse(Format(cmd))=cmd over the symbol alphabet; SpecDmg: transcription of ReadFrame/resyncAOF/replayAOF over every log of <=3-4 frames x bit flip of each header field or payload symbol / overwritten / deleted range / inserted garbage / truncation / pairs of field damages - Inv_Genuine, Inv_Ungarbled, Inv_Order, Inv_Survive, Inv_Refuse, Inv_Terminates, Inv_Alloc, Inv_Stable) + every TLC case refined to real bytes and run on ReadFrame/ParseCommand and engine.Open with state, second-start, panic/hang and allocation accounting; float32 hex/legacy vector codec bit-exact via test overlay",
  text="TLC enumerates all commands over the symbol alphabet and all (log, damage) pairs of the listed configurations, checking that the scan applies a subsequence of the appended commands, ungarbled and in order, including every untouched frame, refuses only without a leading magic byte, terminates, respects the cap and is stable; each sampled case is executed on the real code and the engine state must equal the state of the surviving subsequence the spec computed.",
  note="CRC32 modelled as a perfect hash (values contain no complete well-formed frame). Arbitrary binary content beyond the symbol classes only from seeded random bytes. Logs hold SET/DEL/VCREATE/VADD only. Built by a sub-agent.", ref="6 C03")
CHECKS["C11"] = dict(engine="paths",
  technique="TLC on Paths.tla: transcriptions of FindPath (alternating bidirectional BFS, every queue order) and of the scope BFS checked against declarative ValidPath/Dist/Reach over every graph of the bound x every query; TLC enumerates the graphs up to isomorphism and emits the required answer of every query; each graph is built in a real engine with real timestamps and every query is issued to FindPath, VExtractSubgraph, VSearch+GraphQuery, VTraverse/VSearchGraph and judged by the spec predicates",
  text="Design level: for every directed multigraph up to isomorphism on 4 nodes x 2 relations with <= 5 live edges TLC checks that the bidirectional BFS returns only valid shortest paths, misses none within maxDepth, that the depth-labelled BFS equals Reach, and that both terminate. Code level: the enumerated graphs are executed on the real engine, ~5.6k queries per graph judged against the spec's predicates.",
  note="Bound: 4 nodes (7 in a hand-made family), 2 relations, no weight/property evolution, no hard deletes. FindPath returning valid shortest paths longer than maxDepth is allowed by the property and counted. Built by a sub-agent.", ref="6 C11")
CHECKS["C20"] = dict(engine="text-rag",
  technique="TLC on Split.tla / Compress.tla / Adaptive.tla (transcriptions of the recursive splitter with all built-in strategies, FixedSizeChunker, Compress, expandGraphBFS / expandGreedy / assembleContext; property invariants, loop variants, termination) + every TLC-enumerated case executed on the real code, output compared exactly with the transcription and the property predicates evaluated on the real output; seeded byte-string exploration under a panic/timeout guard on top",
  text="TLC exhaustively enumerates every (text <= 5/7 symbols, strategy, size 1..5, overlap 0..size+1) case, every token-kind sequence x language tag, and every chunk graph on 2-4 nodes x seeds x depth x cap x budget, checking no-loss, the size+overlap bound, negation/connective preservation, budget, depth, cap and termination; every enumerated case is executed on the real code.",
  note="Tiny alphabet; nothing is claimed about other characters or longer texts except through the exploration part (reported separately in the evidence, not model checking). Stemmers covered by run-twice determinism + exploration only. Built by a sub-agent.", ref="6 C20")

CHECKS["C02"] = dict(engine="kektor-engine",
  technique="TLC on Crash.tla (Kektor.tla + process-death model: crash between calls with any flushed prefix of the log, between the phases of SaveSnapshot/RewriteAOF; Inv_CrashAdmissible, Inv_FixedPoint) + spec-driven fault enumeration on the real engine: directory images at hook points (journal write of the last call, between calls, torn last frame at byte offsets, snap.*/rw.* phase boundaries), each opened and compared with the admissible projections computed by the spec, then second Open and write+restart",
  text="TLC checks in every reachable state that what the next Open would read after a crash at each modelled point gives every item a value it held since its last durable write, and that reopening is a fixed point. For every sampled pre-crash state TLC emits the history and the admissible outcome per crash point; the replayer takes real crash images at the hook points and checks Open succeeds, membership, fixed point and no further loss.",
  note="Process-death model (page cache survives). Crash points inside VDeleteIndex, VImportCommit, Compress and a second crash during recovery are not enumerated yet. Known finding KF-C02-1 carried as a named deviation.", ref="6 C02", level="model_checking")

CHECKS["C06"] = dict(engine="vsearch",
  technique="TLC on Search.tla (index contents as a history machine over lattice vectors; Admissible(R,q,k,Live/\\Eval(filter)/\\Scope); SpecSearch: the search action is always enabled and sound) + SearchLayer.tla (transcription of searchLayerUnlocked: LSound on every 3-node graph) + TLC-tabulated admissible sets / tie classes per contents (SpecOracle) + replay of every TLC history on a real engine, after every step the battery (stored and foreign queries x k in {1,2,live+1} x ef in {0,1,50} x 8 filters x graph scopes x VSearch/VSearchGraph/VSearchWithScores/VFilter/text/hybrid) judged with the oracle's sets, scores recomputed from VGet with the reference loop; recorded searches on ~290-vector indexes validated by TLC (Trace_Search)",
  text="TLC enumerates every history of the bound (4 ids, <=4 operations, all insertion paths, deletes, re-adds, vacuum, refine, compress, restart, links) plus random walks and dictates, per reached contents, which ids a search may return and in which order; every answer of the real engine is checked for membership, duplicates, length, order and score (1/(1+d), decay 1) within the precision's tolerance on euclid/float32, cosine/float32, euclid/float16, cosine/int8.",
  note="Lattice data only (components -3..3, dimension 2-3 forward, 2-8 in traces); int8 searches outside the trained quantizer range exempt from score/order; text/hybrid judged for admissibility and score bounds only; sequential histories (the background refine is awaited); a restart that loses contents is attributed to C01. Built by a sub-agent.", ref="6 C06")
CHECKS["C07"] = dict(engine="vsearch",
  technique="TLC on Search.tla (TopKSets up to ties by exact integer arithmetic; Exact when nodes <= 2*M) + SearchLayer.tla (LExact: the layer search is exact whenever live allow-listed nodes are pairwise linked; vacuity run without the premise must fail) + forward replay (M=2, efConstruction=3: 4-node regime and block path reachable) with set(R) in TopKSets checked after every step + backward: recall traces (single / batch / fast import, deletes, vacuum, refine, re-add, compress, restart) validated by TLC (Trace_Search) against floors + refine-vs-add race probe",
  text="Exactness in the small regime is decided by TLC's TopKSets on every replayed step; on larger indexes TLC recomputes for every recorded query how many live vectors are strictly nearer than each returned id and checks per-phase recall for ef>=50, default ef and self-retrieval.",
  note="Floors (euclid 85/65/55, cosine 50/25/35 %) are regression detectors fixed >= 11 / >= 21 points below minima measured over 3x80 traces; graph levels are random, so a replay may need repetition; float data and dimensions above 8 not covered. Open finding KF-C07-1 (block path never links batch-mates). Built by a sub-agent.", ref="6 C07")

CHECKS["C09"] = dict(engine="text-index",
  technique="TLC on TextIdx.tla (abstract corpus of bags over 4 terms beside an implementation-shaped text index - postings, TotalDocs, DocLengths, TotalDocLength, id maps - maintained incrementally by transcriptions of AddMetadata/removeOldIndexEntries/DeleteMetadata and rebuilt by transcriptions of LoadFromSnapshot, replayAOF aggregate+apply, RewriteAOF and Compress; Inv_StatsFresh, Inv_IdMap, Inv_Candidates, Inv_RestartFresh over every history of the bound, over a history-free state cover and over random walks; exact integer vector order on the lattice; fusion as order predicates) + every TLC history replayed on a real engine (english/italian analyser, terms bound at run time to single-token words): FindIDsByTextSearch set/score/order and VSearch/VSearchGraph (explicit text and CONTAINS form, alpha 0/0.5/1, text-only, allow-list, small k) after every step; sampled real searches judged back by TLC (Trace_TextIdx.tla)",
  text="TLC checks that the incrementally maintained statistics equal the from-scratch ones in every state reachable by add / overwrite / delete / re-add / snapshot / restart (log, snapshot, snapshot+log) / compaction / compression within 3 documents x 4 terms x tf <= 2. Each history is executed on the real engine: result set = Candidates(q) for all 15 term subsets, each score = BM25(k1 1.2, b 0.75, Lucene idf) evaluated by the harness from the spec's integers within 1e-9, non-increasing order; alpha = 1 => exact vector order, alpha = 0 => text order, text-only => text order cut at k, alpha = 0.5 => alpha/(1+d) + (1-alpha)*bm25/max within 1e-9.",
  note="The real-valued formulas are evaluated outside TLA+ (TLC has no reals): the spec decides the integers, the candidate sets, the vector order and the order constraints. Queries are term sets; one text field; 3 documents on an integer lattice. alpha = 0.5 is compared with the formula only for k >= live documents. The stemmers themselves are out of the oracle (C20). Sequential restarts only. Built by a sub-agent.", ref="6 C09")

CHECKS["C08"] = dict(engine="filter",
  technique="TLC on Filter.tla: declarative Eval of the documented filter grammar over the meaning (truth/live) vs transcriptions of AddMetadata / AddMetadataUnlocked / removeOldIndexEntries / DeleteMetadata / LoadFromSnapshot / replayAOF aggregation / RewriteAOF / Compress / Vacuum and of evaluateBooleanFilter/FindIDsByFilter/VFilter; Inv_IndexAgrees over every history of the bound (all histories <=4 ops on one key x 6 value types, one history per state <=4-5 ops for 9 value types, 3 ids and 2 keys) and over seeded 20-op histories; TLC emits for every state the result set of every filter of a 12-clause basis + all AND/OR pairs + seeded larger expressions; every history is replayed on a real engine (snapshot restore, log replay, rewrite, compress) and every filter, rendered with seeded spacing/case/quoting/order, is sent to VFilter (set equality) and VSearch (subset).",
  text="Design level: for every reachable state of the bound, FromIndexes(f) = {live id : Eval(meta,f)} for 168 filters (history independence), plus index = image of primary metadata. Code level: every replayed engine state x every basis filter judged against the spec's sets.",
  note="Bound: <=3 ids, 2 keys, values {2 strings, 2 numbers, true/false, 4 lists, absent}; JSON types only (float64/[]any; Go-native ints passed through the embedded API are stored but not indexed live - listed as an assumption); OR-of-ANDs grammar without CONTAINS/parentheses; numeric-/boolean-looking strings excluded as ambiguous; small index; VSearch only subset. The spec keeps a second, 'pinned' transcription (invd) of the defect fixed as KF-C08-1 so a return of exactly that defect is recognised. Built by a sub-agent.", ref="6 C08")

NOT_YET = {}

def main():
    checks = []
    for pid, c in sorted(CHECKS.items()):
        checks.append({
            "property_id": pid,
            "quick_cmd": "./check %s quick" % pid,
            "thorough_cmd": "./check %s thorough" % pid,
            "evidence_file": "evidence/%s.json" % pid,
            "replay_cmd_template": "./check %s --replay {path}" % pid,
            "engine": c["engine"],
            "level_claimed": {"category": c.get("level", MC), "text": c["text"], "design_ref": "DESIGN.md " + c["ref"]},
            "level_note": c["note"],
            "technique": c["technique"],
        })
    all_ids = ["C%02d" % i for i in range(1, 21)]
    na = [{"property_id": p, "reason": NOT_YET.get(p, "check under construction in this session; not claimed until its quick tier is green on the unchanged tree")}
          for p in all_ids if p not in CHECKS]
    hooks = json.load(open(os.path.join(HERE, "hooks.json")))
    m = {
        "version": 1,
        "setup_cmd": "./setup.sh",
        "hooks": hooks,
        "engines": [
            {"name": "kektor-writer", "path": "spec/Writer.tla + tools/check_C14.py + harness/cmd/vreplay/writer.go", "serves_properties": ["C14"],
             "kind_free_text": "TLA+ spec of the concurrent write path; TLC exhaustive; forced-schedule replay with blocking hooks"},
            {"name": "http-auth", "path": "spec/Auth.tla + tools/check_C16.py + harness/cmd/vauth", "serves_properties": ["C16"], "kind_free_text": "TLA+ policy/reference-monitor product + restart machine, replayed on the real server"},
            {"name": "kektor-conc", "path": "spec/Conc.tla + spec/Trace_Conc.tla + tools/check_C13.py + harness/cmd/vreplay/conc.go", "serves_properties": ["C13"], "kind_free_text": "trace validation of real concurrent executions (race build)"},
            {"name": "arena-kernels", "path": "spec/Arena.tla + spec/Kernels.tla + tools/check_C18.py + harness/cmd/c18", "serves_properties": ["C18"], "kind_free_text": "TLA+ transcription of arena/compactor and kernels; behaviours replayed on the real code"},
            {"name": "gateway", "path": "spec/Gateway.tla + tools/check_C17.py + harness/cmd/vgateway", "serves_properties": ["C17"], "kind_free_text": "TLA+ decision machine, histories replayed on the real AIProxy"},
            {"name": "aof-codec", "path": "spec/Codec.tla + tools/check_C03.py + harness/cmd/vcodec", "serves_properties": ["C03"], "kind_free_text": "TLA+ codec/damage model, cases refined to bytes and run on the real recovery"},
            {"name": "paths", "path": "spec/Paths.tla + tools/check_C11.py + harness/cmd/vpaths", "serves_properties": ["C11"], "kind_free_text": "TLA+ reachability/shortest-path definitions + algorithm transcriptions; graphs replayed on the real engine"},
            {"name": "text-rag", "path": "spec/Split.tla + spec/Compress.tla + spec/Adaptive.tla + tools/check_C20.py + harness/cmd/c20", "serves_properties": ["C20"], "kind_free_text": "TLA+ transcriptions of splitter/compressor/retriever, every case executed on the real code"},
            {"name": "vsearch", "path": "spec/Search.tla + spec/SearchLayer.tla + spec/Trace_Search.tla + tools/search_checks.py + harness/cmd/vsearch", "serves_properties": ["C06", "C07"], "kind_free_text": "TLA+ search oracle (admissible sets, exact top-k), histories replayed on the real engine, recall traces validated by TLC"},
            {"name": "text-index", "path": "spec/TextIdx.tla + spec/Trace_TextIdx.tla + tools/check_C09.py + harness/cmd/vtext", "serves_properties": ["C09"], "kind_free_text": "TLA+ text index (incremental vs from-scratch statistics, restart rebuilds), histories replayed on the real engine with BM25/fusion judged"},
            {"name": "filter", "path": "spec/Filter.tla + tools/check_C08.py + harness/cmd/vfilter", "serves_properties": ["C08"], "kind_free_text": "TLA+ filter semantics vs transcribed secondary indexes; histories replayed on the real engine, every basis filter judged"},
            {"name": "decay", "path": "spec/Decay.tla + tools/check_C15.py + harness/cmd/c15decay", "serves_properties": ["C15"], "kind_free_text": "TLA+ case analysis, one implementation test per TLC state"},
            {"name": "http-conformance", "path": "spec/Http.tla + tools/check_C19.py + harness/cmd/vhttp", "serves_properties": ["C19"], "kind_free_text": "TLA+ request/FS model, cases replayed on the real server"},
            {"name": "kektor-engine", "path": "spec/Kektor.tla + tools/engine_checks.py + harness/internal/eng", "serves_properties": ["C01", "C02", "C04", "C05", "C10", "C12"],
             "kind_free_text": "TLA+ spec of the engine (volatile + durable state), TLC exhaustive check, TLC-generated behaviours replayed on the real engine"},
        ],
        "checks": checks,
        "not_applicable": na,
        "notes": "All checks rebuild the Go harness from /repo's working tree with -tags verif. Exit 0 ok / 1 VIOLATION / 2 infrastructure. Known findings: known_findings.json.",
    }
    json.dump(m, open(os.path.join(HERE, "MANIFEST.json"), "w"), indent=1)

if __name__ == "__main__":
    main()
