#!/usr/bin/env python3
"""Regenerates /verif/MANIFEST.json from the table below (single source of truth for what is claimed)."""
import json, os
HERE = os.path.dirname(os.path.dirname(os.path.abspath(__file__)))

MC = "model_checking"
CHECKS = {
 "C01": dict(engine="kektor-engine", technique="TLC on Kektor.tla (Inv_CleanRestart in every state) + replay of TLC behaviours on the real engine, projection compared after every step and across every Reopen",
   text="TLC enumerates every history of the sequential engine model within small constants and evaluates 'recover(disk) = memory' in every state; behaviours emitted by TLC (BFS state cover + random walks) are executed on the real engine and the complete observable projection is compared after each step, before/after each restart and after two extra restarts.",
   note="Trusted: the refinement of abstract tokens into concrete values (harness/internal/eng), TLC. Model constants are small; larger data only via the refinement. Concurrency excluded here (C13/C14).", ref="6 C01"),
 "C04": dict(engine="kektor-engine", technique="TLC on Kektor.tla (implementation-shaped index vs. projection, Inv_IdMaps, Prop_MaintenanceInvisible) + forward replay with full read-interface comparison",
   text="The spec carries the implementation-shaped index (internal ids, tombstones, id maps, vacuum, rebuild) next to the map-of-records projection; TLC checks they agree in every reachable state and the replayer compares every read (get, get-many, cursor listing, count, info, KV) of the real engine with the projection after every step.",
   note="Trusted: refinement tables, TLC. Search results are C06/C07.", ref="6 C04"),
 "C05": dict(engine="kektor-engine", technique="TLC on Kektor.tla (Prop_RejectedNoChange, Inv_CleanRestart after rejected steps) + replay: real projection before = after every call that returned an error, and across a later restart (delta-debugged attribution)",
   text="Every rejected call is an explicit spec action; TLC checks that it changes nothing and that a restart afterwards still reproduces the state. On the real engine each rejected call is followed by a full projection comparison, and a restart that changes state is blamed on the rejection iff the same history without the rejected calls restarts cleanly.",
   note="Error causes modelled: duplicate id (alone, in batch, repeated in batch), unknown index, unknown node, duplicate index name, unsupported/unknown compression target, compress of empty index.", ref="6 C05"),
}

NOT_YET = {}

def main():
    checks = []
    for pid, c in sorted(CHECKS.items()):
        checks.append({
            "property_id": pid,
            "quick_cmd": "./check %s quick" % pid,
            "thorough_cmd": "./check %s thorough" % pid,
            "evidence_file": "evidence/%s.json" % pid,
            "replay_cmd_template": "./check %s --replay {path}" % pid,
            "engine": c["engine"],
            "level_claimed": {"category": c.get("level", MC), "text": c["text"], "design_ref": "DESIGN.md " + c["ref"]},
            "level_note": c["note"],
            "technique": c["technique"],
        })
    all_ids = ["C%02d" % i for i in range(1, 21)]
    na = [{"property_id": p, "reason": NOT_YET.get(p, "check under construction in this session; not claimed until its quick tier is green on the unchanged tree")}
          for p in all_ids if p not in CHECKS]
    hooks = json.load(open(os.path.join(HERE, "hooks.json")))
    m = {
        "version": 1,
        "setup_cmd": "./setup.sh",
        "hooks": hooks,
        "engines": [
            {"name": "kektor-engine", "path": "spec/Kektor.tla + tools/engine_checks.py + harness/internal/eng", "serves_properties": ["C01", "C04", "C05"],
             "kind_free_text": "TLA+ spec of the engine (volatile + durable state), TLC exhaustive check, TLC-generated behaviours replayed on the real engine"},
        ],
        "checks": checks,
        "not_applicable": na,
        "notes": "All checks rebuild the Go harness from /repo's working tree with -tags verif. Exit 0 ok / 1 VIOLATION / 2 infrastructure. Known findings: known_findings.json.",
    }
    json.dump(m, open(os.path.join(HERE, "MANIFEST.json"), "w"), indent=1)

if __name__ == "__main__":
    main()
