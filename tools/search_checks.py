#!/usr/bin/env python3
"""C06 (search returns only live, matching, correctly scored results) and
C07 (approximate search stays close to exact search): shared machinery.

spec/Search.tla (+ SearchMath.tla, MC_Search.tla) is the specification: the contents of a vector index as a
history machine over lattice vectors, the predicates Admissible (C06) and Exact (C07, small regime) and the
oracle tables (admissible set, tie classes, TopKSets per (query, filter, scope)).
  forward  TLC enumerates histories (SpecHist, CORPUS channel), TLC tabulates what a search must answer in the
           contents reached (SpecOracle, ORACLE channel), harness/cmd/vsearch replays every history on a real
           engine and after every step issues the battery of searches, judged with the oracle's sets.
  backward harness/cmd/vsearch loads a real engine with a few hundred lattice vectors through every insertion
           path and records every search; spec/Trace_Search.tla (TLC) recomputes the exact neighbours of every
           logged query, checks admissibility of every logged answer (C06) and the recall floors (C07).
  design   SpecSearch (the search action is always enabled and sound), SearchLayer.tla (the layer search of
           hnsw.searchLayerUnlocked is exact on a graph whose live nodes are pairwise linked).
A divergence is attributed to exactly one property: which ids / how many / order / scores -> C06,
exactness in the small regime and recall -> C07."""
import itertools, json, os, random, re, shutil, subprocess, sys, time
from concurrent.futures import ThreadPoolExecutor
sys.path.insert(0, os.path.dirname(os.path.abspath(__file__)))
import vlib
from vlib import Check, make_cfg, run_tlc, Infra

OWNER = {
    "not_live": "C06", "not_admissible": "C06", "duplicate": "C06", "too_many": "C06", "order": "C06",
    "score_mismatch": "C06", "stored_vector_mismatch": "C06", "stored_unreadable": "C06",
    "not_exact": "C07", "search_error": "C07", "op_failed": "C07",
    "trace_inadmissible": "C06", "recall_below_floor": "C07",
}

IDS = ["a", "b", "c", "d", "e"]

PROFILES = {
    "e32": {"metric": "euclid", "prec": "float32", "compress_to": "float16"},
    "c32": {"metric": "cosine", "prec": "float32", "compress_to": "int8"},
    "e16": {"metric": "euclid", "prec": "float16", "compress_to": ""},
    "ci8": {"metric": "cosine", "prec": "int8", "compress_to": ""},
}
M, EFC, FASTEF = 2, 3, 40


# ------------------------------------------------------------------ data sets on the lattice

def lattice(metric, dim, equal_mag=False):
    """euclid: components -3..3.  cosine: -2..2 in dimension 2, -1..1 in dimension 3, so that distinct cosines differ
    by >= 0.05 / 0.1.  equal_mag (indexes created as int8, whose quantizer is trained on the first vector alone and
    clips later ones): only vectors whose non-zero components have one magnitude - clipping keeps their direction."""
    if metric == "euclid":
        return [p for p in itertools.product(range(-3, 4), repeat=dim)]
    rng = 2 if dim == 2 else 1
    pts = [p for p in itertools.product(range(-rng, rng + 1), repeat=dim) if any(p)]
    if equal_mag:
        pts = [p for p in pts if len({abs(x) for x in p if x}) == 1]
    return pts


def make_dataset(rng, metric, dim, nids, equal_mag=False):
    """Data: id -> [first incarnation, second incarnation]; built to contain what breaks searches:
    duplicates, the zero vector (euclid), equidistant points, same direction at another length (cosine)."""
    pts = lattice(metric, dim, equal_mag)
    first = []
    while len(first) < nids:
        u = rng.random()
        if first and u < 0.2:
            first.append(rng.choice(first))                                  # duplicate
        elif metric == "euclid" and u < 0.3:
            first.append(tuple([0] * dim))                                   # zero vector
        elif first and u < 0.45:
            p = rng.choice(first)
            if metric == "cosine":
                q = tuple(2 * x for x in p)
                first.append(q if q in pts else tuple(-x for x in p))        # same / opposite direction
            else:
                first.append(tuple(-x for x in p))                           # mirror image: ties for a query at 0
        else:
            first.append(rng.choice(pts))
    second = [rng.choice(pts) if rng.random() < 0.7 else rng.choice(first) for _ in range(nids)]
    foreign = {tuple([0] * dim)}
    while len(foreign) < 3:
        foreign.add(rng.choice(pts))
    return {"data": {IDS[i]: [list(first[i]), list(second[i])] for i in range(nids)}, "foreign": sorted(list(f) for f in foreign), "dim": dim}


def tla_vec(v):
    return "<<" + ", ".join(str(x) for x in v) + ">>"


def tla_str_set(xs):
    return "{" + ", ".join('"%s"' % x for x in xs) + "}"


def content_key(live, edges):
    return json.dumps({"live": {k: v for k, v in sorted(live.items()) if v}, "edges": sorted(edges)}, sort_keys=True, separators=(",", ":"))


def gen_module(ds, contents):
    ids = sorted(ds["data"])
    data = " @@ ".join('("%s" :> <<%s>>)' % (i, ", ".join(tla_vec(v) for v in ds["data"][i])) for i in ids)
    lines = ["---- MODULE MC_Search_gen ----", "EXTENDS MC_Search",
             "g_Data == " + data,
             "g_Foreign == {" + ", ".join(tla_vec(v) for v in ds["foreign"]) + "}"]
    recs = []
    for c in contents:
        live = " @@ ".join('("%s" :> %s)' % (i, tla_vec(c["live"].get(i) or [])) for i in ids)
        edges = "{" + ", ".join('<<"%s", "%s", "%s">>' % tuple(e) for e in c["edges"]) + "}"
        recs.append("[live |-> (%s), edges |-> %s]" % (live, edges))
    lines.append("g_Contents == {" + ",\n  ".join(recs) + "}")
    lines.append("====")
    return "\n".join(lines) + "\n"


def constants(pname, nids, graph, maxops, maxadds=None):
    prof = PROFILES[pname]
    ops = "<- c_OpsGraph" if graph else ("<- c_OpsPlain" if prof["compress_to"] else "<- c_OpsNoCompress")
    return {"IdSeq": "<- c_Ids%d" % nids, "Metric": '"%s"' % prof["metric"], "M": M, "EfC": EFC, "FastEf": FASTEF,
            "Data": "<- g_Data", "MetaOf": "<- c_Meta", "Foreign": "<- g_Foreign", "FilterNames": "<- c_Filters",
            "Scopes": "<- c_Scopes" if graph else "<- c_NoScopes", "Combos": "<- c_CombosGraph" if graph else "<- c_CombosPlain",
            "Words": "<- c_Words", "Rels": "<- c_Rels", "OpKinds": ops, "MaxOps": maxops, "MaxBatch": 3,
            "MaxLinks": 3 if graph else 0, "MaxTomb": 3, "MaxAdds": maxadds or (nids + 2), "Contents": "<- g_Contents"}


# ------------------------------------------------------------------ harness build (honours VERIF_REPO)

_alt = {}


def build_vsearch():
    if os.path.realpath(vlib.REPO) == "/repo":
        return vlib.build_harness(cmd="vsearch")
    if "bin" in _alt:
        return _alt["bin"]
    # a scratch copy of the repository (e.g. one carrying a proposed fix): same harness sources, another replace target
    d = vlib.scratch("vsearch-build-")
    mod = open(os.path.join(vlib.HARNESS, "go.mod")).read()
    mod = re.sub(r"replace github.com/sanonone/kektordb => \S+", "replace github.com/sanonone/kektordb => " + os.path.realpath(vlib.REPO), mod)
    with open(os.path.join(d, "alt.mod"), "w") as f:
        f.write(mod)
    shutil.copy(os.path.join(vlib.REPO, "go.sum"), os.path.join(d, "alt.sum"))
    out = os.path.join(d, "vsearch")
    p = subprocess.run(["go", "build", "-tags", "verif", "-modfile", os.path.join(d, "alt.mod"), "-o", out, "./cmd/vsearch"],
                       cwd=vlib.HARNESS, env=vlib.goenv(), capture_output=True, text=True)
    if p.returncode != 0:
        raise Infra("harness build against %s failed:\n%s%s" % (vlib.REPO, p.stdout, p.stderr))
    _alt["bin"] = out
    return out


# ------------------------------------------------------------------ forward: histories, oracle, replay

class Family:
    """One (profile, data set, configuration) of the forward binding."""

    def __init__(self, name, pname, ds, nids, graph, maxops, walks=0, walk_depth=0, max_behaviours=None):
        self.name, self.pname, self.ds, self.nids, self.graph = name, pname, ds, nids, graph
        self.maxops, self.walks, self.walk_depth, self.max_behaviours = maxops, walks, walk_depth, max_behaviours
        self.behaviours, self.tables, self.meta = [], {}, None
        self.hist_states = 0


def hist_run(chk, fam, workers):
    consts = constants(fam.pname, fam.nids, fam.graph, fam.maxops)
    gen = gen_module(fam.ds, [])
    cfg = make_cfg("SpecHist", consts, ["Inv_Hist"], [])
    r = run_tlc("MC_Search_gen", fam.name + "_hist.cfg", cfg_text=cfg, workers=workers, timeout=900, extra_files={"MC_Search_gen.tla": gen})
    chk.add_tlc(fam.name + "_hist", r)
    if not r.ok:
        raise Infra("TLC failed on %s_hist:\n%s" % (fam.name, (r.error or r.raw_tail)[:3000]))
    corpus = r.corpus
    fam.hist_states = r.distinct
    if fam.walks:
        consts2 = dict(consts, MaxOps=fam.walk_depth, MaxAdds=fam.nids + 4)
        cfg2 = make_cfg("SpecHist", consts2, ["Inv_Hist"], [])
        r2 = run_tlc("MC_Search_gen", fam.name + "_walks.cfg", cfg_text=cfg2, workers=1, timeout=900, simulate=fam.walks, depth=fam.walk_depth + 1,
                     seed_=vlib.seed(), extra_files={"MC_Search_gen.tla": gen})
        chk.cov["tlc_runs"].append({"config": fam.name + "_walks", "mode": "simulate", "walks": fam.walks, "depth": fam.walk_depth,
                                    "corpus_records": len(r2.corpus), "wall_s": round(r2.wall, 1)})
        if r2.error:
            raise Infra("TLC simulation failed on %s:\n%s" % (fam.name, r2.error[:2000]))
        corpus = corpus + r2.corpus
    return corpus


def select_behaviours(fam, corpus, rng):
    behs, n = vlib.behaviours_from_corpus([dict(rec, obs=rec) for rec in corpus], max_behaviours=fam.max_behaviours, rng=rng)
    out = []
    for b in behs:
        steps = []
        for s in b["steps"]:
            rec = s["exp"]
            if rec is None:
                steps = None
                break
            live = {k: v for k, v in rec["live"].items() if v} if isinstance(rec["live"], dict) else {}
            edges = [list(e) for e in rec["edges"]]
            steps.append({"op": s["op"], "key": content_key(live, edges), "live": live, "edges": edges,
                          "small": rec["small"], "tomb": rec["tomb"]})
        if steps:
            out.append({"id": fam.name + "/" + b["id"], "steps": steps})
    fam.behaviours = out
    return n


def oracle_run(chk, fam, workers):
    contents = {}
    for b in fam.behaviours:
        for s in b["steps"]:
            contents.setdefault(s["key"], {"live": s["live"], "edges": s["edges"]})
    consts = constants(fam.pname, fam.nids, fam.graph, fam.maxops)
    gen = gen_module(fam.ds, list(contents.values()))
    cfg = make_cfg("SpecOracle", consts, ["Inv_TopK"], [])
    r = run_tlc("MC_Search_gen", fam.name + "_oracle.cfg", cfg_text=cfg, workers=workers, timeout=1800, extra_files={"MC_Search_gen.tla": gen})
    chk.add_tlc(fam.name + "_oracle", r)
    if not r.ok:
        raise Infra("TLC failed on %s_oracle:\n%s" % (fam.name, (r.error or r.raw_tail)[:3000]))
    for rec in r.printed.get("ORACLE", []):
        live = {k: v for k, v in rec["live"].items() if v} if isinstance(rec["live"], dict) else {}
        key = content_key(live, [list(e) for e in rec["edges"]])
        fam.tables[key] = {"rows": rec["rows"], "text": rec["text"]}
        fam.meta = rec["meta"]
    missing = [k for k in contents if k not in fam.tables]
    if missing:
        raise Infra("oracle run %s: %d of %d contents not tabulated (e.g. %s)" % (fam.name, len(missing), len(contents), missing[0]))
    return len(contents)


def engine_meta(meta):
    """MetaOf of the specification -> metadata handed to the engine."""
    out = {}
    for i, m in meta.items():
        out[i] = {"t": m["t"], "n": m["n"], "content": " ".join(sorted(m["w"]))}
    return out


REPLAY_TOTALS = ["behaviours", "steps", "searches", "checks", "exact_checks", "score_checks", "filtered", "scoped", "textual",
                 "nontrivial", "block_batches", "restarts", "div_total"]


def replay_family(chk, fam, totals, light, work):
    prof = dict(PROFILES[fam.pname], m=M, efc=EFC, lang="english", meta=engine_meta(fam.meta), efs=[0, 1, 50], light=light, max_div=3)
    tf = os.path.join(work, fam.name.replace("/", "_") + "_tables.json")
    with open(tf, "w") as f:
        json.dump(fam.tables, f)
    prof["tables_file"] = tf
    binary = build_vsearch()
    t0 = time.time()
    res = vlib.run_sharded(binary, "replay", prof, fam.behaviours, timeout=3000)
    for e in res.get("errors", []):
        chk.infra.append("replay error (%s): %s" % (fam.name, e))
    for k in REPLAY_TOTALS:
        totals[k] = totals.get(k, 0) + int(res.get(k, 0))
    totals.setdefault("replay_wall_s", {})[fam.name] = round(time.time() - t0, 1)
    if res.get("behaviours", 0) != len(fam.behaviours):
        chk.infra.append("replay %s: %d of %d behaviours executed" % (fam.name, res.get("behaviours", 0), len(fam.behaviours)))
    fam.profile = prof
    return res.get("divergences", [])
