#!/usr/bin/env python3
"""C06 (search returns only live, matching, correctly scored results) and
C07 (approximate search stays close to exact search): shared machinery.

spec/Search.tla (+ SearchMath.tla, MC_Search.tla) is the specification: the contents of a vector index as a
history machine over lattice vectors, the predicates Admissible (C06) and Exact (C07, small regime) and the
oracle tables (admissible set, tie classes, TopKSets per (query, filter, scope)).
  forward  TLC enumerates histories (SpecHist, CORPUS channel), TLC tabulates what a search must answer in the
           contents reached (SpecOracle, ORACLE channel), harness/cmd/vsearch replays every history on a real
           engine and after every step issues the battery of searches, judged with the oracle's sets.
  backward harness/cmd/vsearch loads a real engine with a few hundred lattice vectors through every insertion
           path and records every search; spec/Trace_Search.tla (TLC) recomputes the exact neighbours of every
           logged query, checks admissibility of every logged answer (C06) and the recall floors (C07).
  design   SpecSearch (the search action is always enabled and sound), SearchLayer.tla (the layer search of
           hnsw.searchLayerUnlocked is exact on a graph whose live nodes are pairwise linked).
A divergence is attributed to exactly one property: which ids / how many / order / scores -> C06,
exactness in the small regime and recall -> C07."""
import itertools, json, os, random, re, shutil, subprocess, sys, time
from concurrent.futures import ThreadPoolExecutor
sys.path.insert(0, os.path.dirname(os.path.abspath(__file__)))
import vlib
from vlib import Check, make_cfg, run_tlc, Infra

# proposed known findings can be tried out without touching known_findings.json: VERIF_KNOWN_EXTRA=<file with {"findings": [...]}>
_load_known = vlib.load_known


def _load_known_plus():
    out = list(_load_known())
    extra = os.environ.get("VERIF_KNOWN_EXTRA")
    if extra and os.path.exists(extra):
        out += json.load(open(extra)).get("findings", [])
    return out


vlib.load_known = _load_known_plus

OWNER = {
    "not_live": "C06", "not_admissible": "C06", "duplicate": "C06", "too_many": "C06", "order": "C06",
    "score_mismatch": "C06", "stored_vector_mismatch": "C06", "stored_unreadable": "C06",
    "not_exact": "C07", "search_error": "C07", "op_failed": "C07",
    "trace_inadmissible": "C06", "recall_below_floor": "C07", "refine_race_lost_links": "C07",
}

IDS = ["a", "b", "c", "d", "e"]

PROFILES = {
    "e32": {"metric": "euclid", "prec": "float32", "compress_to": "float16"},
    "c32": {"metric": "cosine", "prec": "float32", "compress_to": "int8"},
    "e16": {"metric": "euclid", "prec": "float16", "compress_to": ""},
    "ci8": {"metric": "cosine", "prec": "int8", "compress_to": ""},
}
M, EFC, FASTEF = 2, 3, 40


# ------------------------------------------------------------------ data sets on the lattice

def lattice(metric, dim, equal_mag=False):
    """euclid: components -3..3.  cosine: -2..2 in dimension 2, -1..1 in dimension 3, so that distinct cosines differ
    by >= 0.05 / 0.1.  equal_mag (indexes created as int8, whose quantizer is trained on the first vector alone and
    clips later ones): only vectors whose non-zero components have one magnitude - clipping keeps their direction."""
    if metric == "euclid":
        return [p for p in itertools.product(range(-3, 4), repeat=dim)]
    rng = 2 if dim == 2 else 1
    pts = [p for p in itertools.product(range(-rng, rng + 1), repeat=dim) if any(p)]
    if equal_mag:
        pts = [p for p in pts if len({abs(x) for x in p if x}) == 1]
    return pts


def make_dataset(rng, metric, dim, nids, equal_mag=False):
    """Data: id -> [first incarnation, second incarnation]; built to contain what breaks searches:
    duplicates, the zero vector (euclid), equidistant points, same direction at another length (cosine)."""
    pts = lattice(metric, dim, equal_mag)
    first = []
    while len(first) < nids:
        u = rng.random()
        if first and u < 0.2:
            first.append(rng.choice(first))                                  # duplicate
        elif metric == "euclid" and u < 0.3:
            first.append(tuple([0] * dim))                                   # zero vector
        elif first and u < 0.45:
            p = rng.choice(first)
            if metric == "cosine":
                q = tuple(2 * x for x in p)
                first.append(q if q in pts else tuple(-x for x in p))        # same / opposite direction
            else:
                first.append(tuple(-x for x in p))                           # mirror image: ties for a query at 0
        else:
            first.append(rng.choice(pts))
    second = [rng.choice(pts) if rng.random() < 0.7 else rng.choice(first) for _ in range(nids)]
    foreign = {tuple([0] * dim)}
    while len(foreign) < 3:
        foreign.add(rng.choice(pts))
    return {"data": {IDS[i]: [list(first[i]), list(second[i])] for i in range(nids)}, "foreign": sorted(list(f) for f in foreign), "dim": dim}


def tla_vec(v):
    return "<<" + ", ".join(str(x) for x in v) + ">>"


def tla_str_set(xs):
    return "{" + ", ".join('"%s"' % x for x in xs) + "}"


def content_key(live, edges):
    return json.dumps({"live": {k: v for k, v in sorted(live.items()) if v}, "edges": sorted(edges)}, sort_keys=True, separators=(",", ":"))


def gen_module(ds, contents):
    ids = sorted(ds["data"])
    data = " @@ ".join('("%s" :> <<%s>>)' % (i, ", ".join(tla_vec(v) for v in ds["data"][i])) for i in ids)
    lines = ["---- MODULE MC_Search_gen ----", "EXTENDS MC_Search",
             "g_Data == " + data,
             "g_Foreign == {" + ", ".join(tla_vec(v) for v in ds["foreign"]) + "}"]
    recs = []
    for c in contents:
        live = " @@ ".join('("%s" :> %s)' % (i, tla_vec(c["live"].get(i) or [])) for i in ids)
        edges = "{" + ", ".join('<<"%s", "%s", "%s">>' % tuple(e) for e in c["edges"]) + "}"
        recs.append("[live |-> (%s), edges |-> %s]" % (live, edges))
    lines.append("g_Contents == {" + ",\n  ".join(recs) + "}")
    lines.append("====")
    return "\n".join(lines) + "\n"


def constants(pname, nids, graph, maxops, maxadds=None):
    prof = PROFILES[pname]
    ops = "<- c_OpsGraph" if graph else ("<- c_OpsPlain" if prof["compress_to"] else "<- c_OpsNoCompress")
    return {"IdSeq": "<- c_Ids%d" % nids, "Metric": '"%s"' % prof["metric"], "M": M, "EfC": EFC, "FastEf": FASTEF,
            "Data": "<- g_Data", "MetaOf": "<- c_Meta", "Foreign": "<- g_Foreign", "FilterNames": "<- c_Filters",
            "Scopes": "<- c_Scopes" if graph else "<- c_NoScopes", "Combos": "<- c_CombosGraph" if graph else "<- c_CombosPlain",
            "Words": "<- c_Words", "Rels": "<- c_Rels", "OpKinds": ops, "MaxOps": maxops, "MaxBatch": 3,
            "MaxLinks": 3 if graph else 0, "MaxTomb": 3, "MaxAdds": maxadds or (nids + 2), "Contents": "<- g_Contents"}


# ------------------------------------------------------------------ harness build (honours VERIF_REPO)

_alt = {}


def build_vsearch():
    if os.path.realpath(vlib.REPO) == "/repo":
        return vlib.build_harness(cmd="vsearch")
    if "bin" in _alt:
        return _alt["bin"]
    # a scratch copy of the repository (e.g. one carrying a proposed fix): same harness sources, another replace target
    d = vlib.scratch("vsearch-build-")
    mod = open(os.path.join(vlib.HARNESS, "go.mod")).read()
    mod = re.sub(r"replace github.com/sanonone/kektordb => \S+", "replace github.com/sanonone/kektordb => " + os.path.realpath(vlib.REPO), mod)
    with open(os.path.join(d, "alt.mod"), "w") as f:
        f.write(mod)
    shutil.copy(os.path.join(vlib.REPO, "go.sum"), os.path.join(d, "alt.sum"))
    out = os.path.join(d, "vsearch")
    p = subprocess.run(["go", "build", "-tags", "verif", "-modfile", os.path.join(d, "alt.mod"), "-o", out, "./cmd/vsearch"],
                       cwd=vlib.HARNESS, env=vlib.goenv(), capture_output=True, text=True)
    if p.returncode != 0:
        raise Infra("harness build against %s failed:\n%s%s" % (vlib.REPO, p.stdout, p.stderr))
    _alt["bin"] = out
    return out


# ------------------------------------------------------------------ forward: histories, oracle, replay

class Family:
    """One (profile, data set, configuration) of the forward binding."""

    def __init__(self, name, pname, ds, nids, graph, maxops, walks=0, walk_depth=0, max_behaviours=None):
        self.name, self.pname, self.ds, self.nids, self.graph = name, pname, ds, nids, graph
        self.maxops, self.walks, self.walk_depth, self.max_behaviours = maxops, walks, walk_depth, max_behaviours
        self.behaviours, self.tables, self.meta = [], {}, None
        self.hist_states = 0


def hist_run(chk, fam, workers):
    consts = constants(fam.pname, fam.nids, fam.graph, fam.maxops)
    gen = gen_module(fam.ds, [])
    cfg = make_cfg("SpecHist", consts, ["Inv_Hist"], [])
    r = run_tlc("MC_Search_gen", fam.name + "_hist.cfg", cfg_text=cfg, workers=workers, timeout=900, extra_files={"MC_Search_gen.tla": gen})
    chk.add_tlc(fam.name + "_hist", r)
    if not r.ok:
        raise Infra("TLC failed on %s_hist:\n%s" % (fam.name, (r.error or r.raw_tail)[:3000]))
    corpus = r.corpus
    fam.hist_states = r.distinct
    if fam.walks:
        consts2 = dict(consts, MaxOps=fam.walk_depth, MaxAdds=fam.nids + 4)
        cfg2 = make_cfg("SpecHist", consts2, ["Inv_Hist"], [])
        r2 = run_tlc("MC_Search_gen", fam.name + "_walks.cfg", cfg_text=cfg2, workers=1, timeout=900, simulate=fam.walks, depth=fam.walk_depth + 1,
                     seed_=vlib.seed(), extra_files={"MC_Search_gen.tla": gen})
        chk.cov["tlc_runs"].append({"config": fam.name + "_walks", "mode": "simulate", "walks": fam.walks, "depth": fam.walk_depth,
                                    "corpus_records": len(r2.corpus), "wall_s": round(r2.wall, 1)})
        if r2.error:
            raise Infra("TLC simulation failed on %s:\n%s" % (fam.name, r2.error[:2000]))
        corpus = corpus + r2.corpus
    return corpus


def select_behaviours(fam, corpus, rng):
    behs, n = vlib.behaviours_from_corpus([dict(rec, obs=rec) for rec in corpus], max_behaviours=fam.max_behaviours, rng=rng)
    out = []
    for b in behs:
        steps = []
        for s in b["steps"]:
            rec = s["exp"]
            if rec is None:
                steps = None
                break
            live = {k: v for k, v in rec["live"].items() if v} if isinstance(rec["live"], dict) else {}
            edges = [list(e) for e in rec["edges"]]
            steps.append({"op": s["op"], "key": content_key(live, edges), "live": live, "edges": edges,
                          "small": rec["small"], "tomb": rec["tomb"]})
        if steps:
            out.append({"id": fam.name + "/" + b["id"], "steps": steps})
    fam.behaviours = out
    return n


def oracle_run(chk, fam, workers):
    contents = {}
    for b in fam.behaviours:
        for s in b["steps"]:
            contents.setdefault(s["key"], {"live": s["live"], "edges": s["edges"]})
    consts = constants(fam.pname, fam.nids, fam.graph, fam.maxops)
    gen = gen_module(fam.ds, list(contents.values()))
    cfg = make_cfg("SpecOracle", consts, ["Inv_TopK"], [])
    r = run_tlc("MC_Search_gen", fam.name + "_oracle.cfg", cfg_text=cfg, workers=workers, timeout=1800, extra_files={"MC_Search_gen.tla": gen})
    chk.add_tlc(fam.name + "_oracle", r)
    if not r.ok:
        raise Infra("TLC failed on %s_oracle:\n%s" % (fam.name, (r.error or r.raw_tail)[:3000]))
    for rec in r.printed.get("ORACLE", []):
        live = {k: v for k, v in rec["live"].items() if v} if isinstance(rec["live"], dict) else {}
        key = content_key(live, [list(e) for e in rec["edges"]])
        fam.tables[key] = {"rows": rec["rows"], "text": rec["text"]}
        fam.meta = rec["meta"]
    missing = [k for k in contents if k not in fam.tables]
    if missing:
        raise Infra("oracle run %s: %d of %d contents not tabulated (e.g. %s)" % (fam.name, len(missing), len(contents), missing[0]))
    return len(contents)


def engine_meta(meta):
    """MetaOf of the specification -> metadata handed to the engine."""
    out = {}
    for i, m in meta.items():
        out[i] = {"t": m["t"], "n": m["n"], "content": " ".join(sorted(m["w"]))}
    return out


REPLAY_TOTALS = ["behaviours", "steps", "searches", "checks", "exact_checks", "score_checks", "filtered", "scoped", "textual",
                 "nontrivial", "block_batches", "restarts", "div_total"]


def replay_family(chk, fam, totals, light, work):
    prof = dict(PROFILES[fam.pname], m=M, efc=EFC, lang="english", meta=engine_meta(fam.meta), efs=[0, 1, 50], light=light, max_div=3)
    tf = os.path.join(work, fam.name.replace("/", "_") + "_tables.json")
    with open(tf, "w") as f:
        json.dump(fam.tables, f)
    prof["tables_file"] = tf
    binary = build_vsearch()
    t0 = time.time()
    res = vlib.run_sharded(binary, "replay", prof, fam.behaviours, timeout=3000)
    for e in res.get("errors", []):
        chk.infra.append("replay error (%s): %s" % (fam.name, e))
    for k in REPLAY_TOTALS:
        totals[k] = totals.get(k, 0) + int(res.get(k, 0))
    totals.setdefault("replay_wall_s", {})[fam.name] = round(time.time() - t0, 1)
    if res.get("behaviours", 0) != len(fam.behaviours):
        chk.infra.append("replay %s: %d of %d behaviours executed" % (fam.name, res.get("behaviours", 0), len(fam.behaviours)))
    fam.profile = prof
    return res.get("divergences", [])


# ------------------------------------------------------------------ backward: recall traces validated by TLC

RECALL_PROFILE = {"m": 8, "efc": 64}

# Floors (percent) of Trace_Search.tla: regression detectors, fixed AFTER measuring. Measured minima over all phases of
# seeds 1..20 x 4 profiles x dimensions {2,3,4,6,8} (80 traces, 64,000 searches per measurement), three measurements:
# the tree as it was when the check was built, the tree after the id-block fix (f61288e) and the tree carrying the
# proposed fixes; plus the 20 traces of a thorough run. The floors lie >= 11 (euclid) / >= 21 (cosine) points below.
MEASURED = {
    "euclid": {"hi": 96.0, "lo": 85.5, "self": 76.0,
               "per_measurement": {"initial tree": [97.4, 90.0, 92.0], "after f61288e": [96.0, 90.0, 84.0], "with proposed fixes": [96.0, 85.5, 76.0]}},
    "cosine": {"hi": 71.4, "lo": 49.1, "self": 60.0,
               "per_measurement": {"initial tree": [71.4, 80.0, 64.0], "after f61288e": [77.1, 60.0, 72.0], "with proposed fixes": [76.6, 49.1, 72.0],
                                   "thorough run with proposed fixes (20 traces)": [81.7, 70.0, 60.0]}},
}
FLOORS = {
    "euclid": {"FloorHi": 85, "FloorLo": 65, "FloorSelf": 55},
    "cosine": {"FloorHi": 50, "FloorLo": 25, "FloorSelf": 35},
}
NOFLOORS = {"FloorHi": 0, "FloorLo": 0, "FloorSelf": 0}
DIMS = [2, 3, 4, 6, 8]


def recall_plans(pnames, seeds, work, n_single=100, n_batch=80, n_import=80, stored=25, foreign=10, dims=None):
    plans = []
    for pname in pnames:
        for sd in seeds:
            dim = (dims or DIMS)[(sd + len(pname) + ord(pname[0])) % len(dims or DIMS)]
            prof = dict(PROFILES[pname], m=RECALL_PROFILE["m"], efc=RECALL_PROFILE["efc"], lang="")
            plans.append({"profile": prof, "dim": dim, "seed": sd, "single": n_single, "batch": n_batch, "import": n_import,
                          "stored": stored, "foreign": foreign, "range": 3,
                          "trace": os.path.join(work, "trace_%s_%d.ndjson" % (pname, sd)), "pname": pname})
    return plans


def record_traces(chk, plans, shards=None):
    binary = build_vsearch()
    res = vlib.run_sharded(binary, "recall", {}, plans, payload_key="plans", timeout=1800, shards=shards)
    for e in res.get("errors", []):
        chk.infra.append("recall recording error: %s" % e)
    return res.get("runs", [])


def validate_trace(plan, floors, check_adm, timeout=1200):
    int8 = "int8" in (plan["profile"]["prec"], plan["profile"]["compress_to"])
    consts = dict(floors, Metric='"%s"' % plan["profile"]["metric"], CheckOrder="FALSE" if int8 else "TRUE",
                  CheckAdm="TRUE" if check_adm else "FALSE")
    cfg = make_cfg("TraceSpec", consts, ["Inv_Trace"], [])
    return run_tlc("Trace_Search", "trace_%s_%d.cfg" % (plan["pname"], plan["seed"]), cfg_text=cfg, workers=1, timeout=timeout,
                   env_extra={"TRACE": plan["trace"]})


def backward(chk, prop, plans, stats, par=8):
    """Record the traces on the real engine, let TLC validate them; returns the divergences (dicts)."""
    t0 = time.time()
    runs = {r["trace"]: r for r in record_traces(chk, plans)}
    stats["record_wall_s"] = round(time.time() - t0, 1)
    divs = []

    def one(plan):
        run = runs.get(plan["trace"])
        if run is None or run.get("error"):
            return plan, run, None
        floors = FLOORS[plan["profile"]["metric"]] if prop == "C07" else NOFLOORS
        return plan, run, validate_trace(plan, floors, check_adm=(prop == "C06"))

    t0 = time.time()
    with ThreadPoolExecutor(par) as ex:
        results = list(ex.map(one, plans))
    stats["validate_wall_s"] = round(time.time() - t0, 1)
    for plan, run, r in results:
        if r is None:
            chk.infra.append("trace %s was not recorded: %s" % (plan["trace"], (run or {}).get("error")))
            continue
        name = "trace_%s_seed%d_dim%d" % (plan["pname"], plan["seed"], plan["dim"])
        chk.cov["tlc_runs"].append({"config": name, "mode": "trace validation", "lines": run["lines"], "depth": r.depth, "searches": run["searches"],
                                    "distinct_states": r.distinct, "wall_s": round(r.wall, 1), "ok": r.ok})
        chk.cov["states"] += r.distinct
        chk.cov["transitions"] += r.generated
        stats["traces"] = stats.get("traces", 0) + 1
        stats["trace_searches"] = stats.get("trace_searches", 0) + run["searches"]
        stats["trace_lines"] = stats.get("trace_lines", 0) + run["lines"]
        if run.get("restart_lost"):
            stats["restart_lost_traces"] = stats.get("restart_lost_traces", 0) + 1
        for rec in r.printed.get("RECALL", []):
            for cls in ("hi", "lo", "self"):
                if rec[cls + "N"]:
                    pct = round(100.0 * rec[cls] / rec[cls + "N"], 1)
                    key = "%s/%s" % (plan["profile"]["metric"], cls)
                    cur = stats.setdefault("recall_min", {}).get(key)
                    if cur is None or pct < cur["pct"]:
                        stats["recall_min"][key] = {"pct": pct, "phase": rec["name"], "profile": plan["pname"], "seed": plan["seed"], "dim": plan["dim"], "index_size": rec["size"]}
        if r.violated == "Inv_Trace":
            text = r.trace[-1] if r.trace else ""
            what = "recall_below_floor" if "recall_below_floor" in text else "trace_inadmissible"
            m = re.search(r"bad = (<<.*>>)", text, re.S)
            divs.append({"id": name, "step": 0, "kind": what, "op": {"op": "trace"}, "detail": (m.group(1) if m else text)[:1500],
                         "diff": ["floors=%s" % json.dumps(FLOORS[plan["profile"]["metric"]])], "plan": plan})
        elif not r.ok:
            chk.infra.append("TLC failed on %s: %s" % (name, (r.error or r.raw_tail)[:1500]))
        elif r.depth != run["lines"] + 1:
            chk.infra.append("trace %s: TLC consumed %d of %d lines" % (name, r.depth - 1, run["lines"]))
    return divs


# ------------------------------------------------------------------ the background refine of VImportCommit against concurrent adds

def refine_race(chk, trials, stats):
    """Probabilistic probe (can miss, cannot accuse wrongly): 24 vectors are imported and committed, 8 single adds race with the
    background refine the commit started; with M=16 no neighbour list is full, so once everything is quiet every link of the
    late vectors must exist in both directions."""
    binary = build_vsearch()
    prof = {"metric": "euclid", "prec": "float32", "m": 16, "efc": 200}
    shards = 4
    res = vlib.run_sharded(binary, "refinerace", prof, [{"n": max(1, trials // shards)} for _ in range(shards)], payload_key="runs", shards=shards)
    for e in res.get("errors", []):
        chk.infra.append("refine race probe: %s" % e)
    stats["refine_race"] = {"trials": res.get("trials", 0), "trials_with_lost_links": res.get("trials_with_lost_links", 0), "lost_links": res.get("lost_links", 0)}
    if res.get("trials_with_lost_links", 0):
        return [{"id": "refine_race", "step": 0, "kind": "refine_race_lost_links", "op": {"op": "VImportCommit || VAdd"},
                 "detail": "%d of %d trials: links added by VAdd while the background refine of VImportCommit was running are gone afterwards (%d links)" % (
                     res["trials_with_lost_links"], res["trials"], res["lost_links"]),
                 "diff": res.get("examples", [])[:3], "plan": {"kind": "refinerace", "trials": trials}}]
    return []


# ------------------------------------------------------------------ design level

def tiny_consts(lay):
    return dict(lay, LVecs="<- c_LVecs2", LQs="<- c_LQs1", LKs="{2}", LEfs="{1}")


def design(chk, quick):
    out = []
    rng = random.Random(7)
    ds = make_dataset(rng, "euclid", 2, 3)
    consts = constants("e32", 3, False, 2 if quick else 4)
    consts.update(OpKinds="<- c_OpsTiny", Combos="<- c_CombosTiny", MaxAdds=4)
    cfg = make_cfg("SpecSearch", consts, ["Inv_Hist", "Inv_SearchSound", "Inv_SearchEnabled"], [])
    out.append(("Search_action", "MC_Search_gen", cfg, {"MC_Search_gen.tla": gen_module(ds, [])}, None))
    lay = {"Metric": '"euclid"', "LN": 3, "LKs": "{1, 2}", "LEfs": "{0, 1, 3}"}
    small = dict(lay, LVecs="<- c_LVecs2", LQs="<- c_LQs1")
    full = dict(lay, LVecs="<- c_LVecs3", LQs="<- c_LQs2")
    out.append(("SearchLayer_premise", "MC_SearchLayer", make_cfg("SpecLayer", dict(small if quick else full, Premise="TRUE"), ["LSound", "LExact"], []), None, None))
    if not quick:
        out.append(("SearchLayer_terminates", "MC_SearchLayer", make_cfg("SpecLayer", dict(tiny_consts(lay), Premise="FALSE"), ["LSound"], ["LTerminates"]), None, None))
    tiny = dict(small, LKs="{2}", LEfs="{1}")
    out.append(("SearchLayer_any_graph", "MC_SearchLayer", make_cfg("SpecLayer", dict(tiny if quick else small, Premise="FALSE"), ["LSound"], []), None, None))
    out.append(("SearchLayer_vacuity", "MC_SearchLayer", make_cfg("SpecLayer", dict(tiny, Premise="FALSE"), ["LExactAnyGraph"], []), None, "LExactAnyGraph"))

    def one(job):
        name, module, cfg, extra, expect = job
        r = run_tlc(module, name + ".cfg", cfg_text=cfg, workers=4, timeout=900 if quick else 2400, extra_files=extra)
        return name, expect, r

    return out, one


def finish_design(chk, results):
    for name, expect, r in results:
        if expect:
            # a configuration that MUST fail: the premise of LExact is not vacuous
            chk.cov["tlc_runs"].append({"config": name, "expected_violation": expect, "violated": r.violated, "distinct_states": r.distinct, "wall_s": round(r.wall, 1)})
            if r.violated != expect:
                chk.infra.append("%s: expected %s to be violated without the premise, TLC says %s" % (name, expect, r.violated or "no error"))
        else:
            chk.add_tlc(name, r)


# ------------------------------------------------------------------ verdicts

def view_of(beh):
    """behaviour view for vlib.match_known: operation names carry the insertion path (Batch:block)."""
    steps = []
    for s in beh["steps"]:
        o = s["op"]
        n = o["op"] + (":" + o["path"] if o["op"] in ("Batch", "Import") and o.get("path") else "")
        steps.append({"op": {"op": n}})
    return {"steps": steps}


def judge(chk, prop, fam, divs, stats):
    bmap = {b["id"]: b for b in fam.behaviours}
    divs = sorted(divs, key=lambda d: (d["step"], len(bmap.get(d["id"], {"steps": []})["steps"]), d["id"]))
    reported = set()
    for div in divs:
        own = OWNER.get(div["kind"])
        if div["kind"] == "restart_changed_contents":
            stats["restart_changed_contents"] = stats.get("restart_changed_contents", 0) + 1   # the restart property's (C01)
            continue
        if own != prop:
            stats["other_property"] = stats.get("other_property", 0) + 1
            continue
        beh = bmap.get(div["id"])
        kf = vlib.match_known(prop, div, view_of(beh) if beh else None)
        if kf:
            chk.known.append((kf["id"], kf["what"]))
            stats["known"] = stats.get("known", 0) + 1
            continue
        key = (div["kind"], (div.get("op") or {}).get("op"), tuple(s["op"]["op"] for s in beh["steps"][: div["step"] + 1]) if beh else ())
        if key in reported:
            continue
        reported.add(key)
        if len(chk.violations) < 20:
            hist = [s["op"] for s in beh["steps"][: div["step"] + 1]] if beh else []
            what = "%s at step %d: %s\n%s\n%s\nhistory: %s" % (div["kind"], div["step"], json.dumps(div.get("op")), div.get("detail", ""),
                                                            "\n".join(div.get("diff") or []), json.dumps(hist))
            chk.violation(what, {"property": prop, "checker": "vsearch-replay", "family": {"name": fam.name, "pname": fam.pname, "ds": fam.ds, "nids": fam.nids,
                                                                                        "graph": fam.graph, "maxops": fam.maxops},
                                 "behaviour": beh, "divergence": div})


def judge_traces(chk, prop, divs, stats):
    for div in divs:
        if OWNER.get(div["kind"]) != prop:
            continue
        kf = vlib.match_known(prop, div, None)
        if kf:
            chk.known.append((kf["id"], kf["what"]))
            continue
        plan = div.pop("plan")
        chk.violation("%s in %s\n%s" % (div["kind"], div["id"], div["detail"]), {"property": prop, "checker": "vsearch-trace", "plan": plan, "divergence": div})


# ------------------------------------------------------------------ the check

def families(tier, rng):
    quick = tier == "quick"
    fams = []
    for pname in PROFILES:
        metric = PROFILES[pname]["metric"]
        eq = pname == "ci8"
        if quick:
            fams.append(Family("%s_d2" % pname, pname, make_dataset(rng, metric, 2, 4, eq), 4, False, 3, walks=100, walk_depth=7, max_behaviours=600))
        else:
            fams.append(Family("%s_d2" % pname, pname, make_dataset(rng, metric, 2, 4, eq), 4, False, 4, walks=600, walk_depth=8, max_behaviours=None))
            fams.append(Family("%s_d3" % pname, pname, make_dataset(rng, metric, 3, 4, eq), 4, False, 3, walks=300, walk_depth=8, max_behaviours=None))
    for pname in (("e32",) if quick else ("e32", "c32")):
        fams.append(Family("%s_graph" % pname, pname, make_dataset(rng, PROFILES[pname]["metric"], 2, 3), 3, True, 3 if quick else 4,
                           walks=80 if quick else 400, walk_depth=8, max_behaviours=350 if quick else 5000))
    return fams


def run(prop, tier):
    chk = Check(prop, tier)
    rng = random.Random(vlib.seed())
    quick = tier == "quick"
    work = vlib.scratch("search-")
    stats, totals = {}, {}
    try:
        build_vsearch()
        pool = ThreadPoolExecutor(max_workers=6)
        # design level and the backward binding run beside the forward binding
        jobs, one = design(chk, quick)
        design_f = [pool.submit(one, j) for j in jobs]
        seeds = [vlib.seed()] if quick else [vlib.seed() * 100 + i for i in range(5)]
        plans = recall_plans(list(PROFILES), seeds, work, 80, 64, 64, 12, 6) if quick else recall_plans(list(PROFILES), seeds, work)
        back_f = pool.submit(backward, chk, prop, plans, stats, 4 if quick else 8)

        fams = families(tier, rng)

        def prepare(fam):
            corpus = hist_run(chk, fam, 4)
            n = select_behaviours(fam, corpus, random.Random(vlib.seed()))
            fam.contents = oracle_run(chk, fam, 4)
            return fam, n

        from concurrent.futures import as_completed
        prep_pool = ThreadPoolExecutor(max_workers=5 if quick else 4)
        prep_f = [prep_pool.submit(prepare, f) for f in fams]
        fam_cov, prepared = [], []
        for fut in as_completed(prep_f):       # replay a family as soon as its histories and tables are there
            fam, nrec = fut.result()
            prepared.append((fam, nrec))
            divs = replay_family(chk, fam, totals, light=not quick and fam.maxops >= 4, work=work)
            judge(chk, prop, fam, divs, stats)
            fam_cov.append({"family": fam.name, "profile": fam.pname, "data": fam.ds["data"], "foreign_queries": fam.ds["foreign"],
                            "histories_enumerated_by_tlc": fam.hist_states, "corpus_records": nrec, "behaviours_replayed": len(fam.behaviours),
                            "contents_tabulated": fam.contents, "bound": "ids=%d MaxOps=%d (exhaustive) + %d random walks of depth %d%s" % (
                                fam.nids, fam.maxops, fam.walks, fam.walk_depth, ", graph links" if fam.graph else "")})
        tdivs = back_f.result()
        if prop == "C07":
            tdivs = tdivs + refine_race(chk, 80 if quick else 600, stats)
        judge_traces(chk, prop, tdivs, stats)
        finish_design(chk, [f.result() for f in design_f])
        pool.shutdown()

        chk.cov["traces_validated_against_impl"] = totals.get("behaviours", 0) + stats.get("traces", 0)
        chk.cov["evaluations"] = totals.get("checks", 0) + stats.get("trace_searches", 0)
        chk.cov["distinct_nontrivial"] = totals.get("exact_checks", 0) if prop == "C07" else totals.get("nontrivial", 0) + totals.get("score_checks", 0)
        chk.cov["exhaustive"] = not quick
        chk.cov["binding"] = dict(totals, **{k: v for k, v in stats.items()})
        chk.cov["families"] = fam_cov
        chk.cov["recall_floors_percent"] = FLOORS
        chk.cov["recall_minima_measured_when_floors_were_fixed"] = MEASURED
        if fam_cov:
            b = prepared[0][0].behaviours
            chk.cov["samples"] = [[s["op"] for s in x["steps"]] for x in b[:2]]
        # vacuity guards
        need = [("behaviours", 100), ("searches", 10000), ("exact_checks", 5000), ("score_checks", 5000), ("filtered", 100),
                ("scoped", 50), ("textual", 100), ("block_batches", 10), ("restarts", 10)]
        for key, least in need:
            if totals.get(key, 0) < least:
                chk.infra.append("vacuous coverage: %s = %s" % (key, totals.get(key, 0)))
        if stats.get("traces", 0) < len(plans):
            chk.infra.append("only %d of %d traces validated" % (stats.get("traces", 0), len(plans)))
        chk.cov["rule"] = (
            "forward: per family TLC enumerates every history of the bound (SpecHist; first adds in id order, which vector meets which is varied by the "
            "data set) plus random walks; leaves of the prefix tree are replayed on a real engine (M=2, efConstruction=3 so that 2*M=4 nodes and the "
            "block path of AddBatch are reachable); after EVERY step the battery is issued: every stored vector and 3 foreign lattice points x "
            "k in {1,2,live+1} x efSearch in {0,1,50} x 8 filters (x graph scopes in the graph families) through VSearch, VSearchGraph, "
            "VSearchWithScores, plus text-only / CONTAINS / hybrid searches and VFilter; every answer is judged with the sets tabulated by TLC "
            "(SpecOracle): admissible set, tie classes, TopKSets. backward: %d traces (4 profiles x seeds, ~290 vectors, dimensions 2..8) "
            "validated by TLC (Trace_Search). non-trivial = %s" % (
                len(plans), "exactness checks in the small regime" if prop == "C07" else "searches whose admissible set is a proper non-empty subset of the live ids + score recomputations"))
        chk.assumptions += [
            "vectors lie on an integer lattice (euclid: components -3..3; cosine: -2..2 in dimension 2, -1..1 in dimension 3, so that distinct cosines differ by >= 0.05); "
            "distinct distances are therefore separated by far more than the precision's tolerance and ties are exact",
            "an index created as int8 is fed vectors whose non-zero components have one magnitude (and, on the unchanged tree, scaled to the same largest "
            "component): its quantizer is trained on the first vector alone and clipping (allowed, C18) must not change directions; on int8 indexes searches "
            "whose query or candidates fall outside the trained range are exempt from the score / order / exactness checks (counted: out_of_trained_range)",
            "metadata is a fixed function of the id (MetaOf); filter semantics beyond the 8 filters of the basis is C08's subject, graph reachability beyond the 8 scopes is C11's",
            "histories are sequential: the background refine started by VImportCommit is awaited before the next operation (its race with a concurrent Add is "
            "reported separately); searches concurrent with writers are not covered here (C13 validates concurrent traces)",
            "a restart that does not bring the contents back (VGet differs from the specification) is attributed to C01 and ends the behaviour (counted: restart_changed_contents)",
            "tomb / ctr of the specification are upper bounds after a restart (a log replay drops tombstones), so the small regime is never claimed wrongly",
            "text and hybrid searches are judged for admissibility (and the fused score for its bounds) only: BM25 ranking is outside Search.tla",
            "recall floors are regression detectors fixed with a wide margin below the minima measured over 80 traces; recall on float data sets and dimensions above 8 is not covered",
        ]
        return chk.finish()
    finally:
        shutil.rmtree(work, ignore_errors=True)


# ------------------------------------------------------------------ replay of a recorded violation

def replay_file(prop, path):
    rec = json.load(open(path))
    chk = Check(prop, "replay")
    work = vlib.scratch("search-replay-")
    try:
        if rec.get("checker") == "vsearch-trace" and rec["plan"].get("kind") == "refinerace":
            divs = refine_race(chk, rec["plan"]["trials"], {})
            for d in divs:
                d.pop("plan", None)
            print(json.dumps({"divergences": divs}, indent=1))
        elif rec.get("checker") == "vsearch-trace":
            plan = dict(rec["plan"], trace=os.path.join(work, "trace.ndjson"))
            divs = backward(chk, prop, [plan], {}, 1)
            divs = [d for d in divs if OWNER.get(d["kind"]) == prop]
            for d in divs:
                d.pop("plan", None)
            print(json.dumps({"plan": plan, "divergences": divs}, indent=1))
        else:
            f = rec["family"]
            fam = Family(f["name"], f["pname"], f["ds"], f["nids"], f["graph"], f["maxops"])
            fam.behaviours = [rec["behaviour"]]
            oracle_run(chk, fam, 2)     # the expected sets are regenerated from the specification
            alld = replay_family(chk, fam, {}, light=False, work=work)
            divs = [d for d in alld if OWNER.get(d["kind"]) == prop]
            print(json.dumps({"history": [s["op"] for s in rec["behaviour"]["steps"]], "divergences": divs[:30]}, indent=1))
        if chk.infra:
            raise Infra("; ".join(chk.infra))
        if divs:
            print("VIOLATION property=%s replay=%s" % (prop, path))
            return vlib.EXIT_VIOLATION
        print("replay: no divergence on the current tree (graph construction is randomised: repeat the replay)")
        return vlib.EXIT_OK
    finally:
        shutil.rmtree(work, ignore_errors=True)


def main(prop):
    if len(sys.argv) > 2 and sys.argv[1] == "--replay":
        vlib.main_wrapper(lambda: replay_file(prop, sys.argv[2]))
    tier = sys.argv[1] if len(sys.argv) > 1 else os.environ.get("VERIF_TIER", "quick")
    vlib.main_wrapper(lambda: run(prop, tier))
