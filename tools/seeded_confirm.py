#!/usr/bin/env python3
"""Confirm a seeded change produced by an independent sub-agent and measure which checks catch it.

usage: seeded_confirm.py <name> <patch.diff> <demo_test.go> <meta.json> <demo-package-dir> <check-id> [<check-id>...]

1. in a scratch worktree of /repo (outside /repo and /verif): the patch applies, `go build ./...` passes, the
   existing tests of the affected packages pass unedited, the demonstration FAILS with the patch and PASSES
   without it;
2. the patch is applied to /repo, the listed checks are run (quick tier), and it is undone straight afterwards;
3. everything is recorded under /verif/seeded/<name>/ (patch.diff, the demonstration, meta.json)."""
import json, os, shutil, subprocess, sys, time

VERIF = os.path.dirname(os.path.dirname(os.path.abspath(__file__)))
ENV = dict(os.environ, GOFLAGS="-mod=mod", GOPROXY="off")
ENV.pop("GOSUMDB", None)
PKGS = ["./pkg/engine/", "./pkg/core/...", "./pkg/persistence/", "./internal/server/", "./pkg/proxy/", "./pkg/rag/", "./pkg/auth/"]


def sh(cmd, cwd, timeout=1800):
    p = subprocess.run(cmd, cwd=cwd, env=ENV, capture_output=True, text=True, timeout=timeout)
    return p.returncode, (p.stdout + p.stderr)


def main():
    name, patch, demo, meta, demopkg = sys.argv[1:6]
    checks = sys.argv[6:]
    wt = "/tmp/mutv/" + name
    shutil.rmtree(wt, ignore_errors=True)
    os.makedirs("/tmp/mutv", exist_ok=True)
    subprocess.run(["git", "-C", "/repo", "worktree", "prune"], capture_output=True)
    rc, out = sh(["git", "-C", "/repo", "worktree", "add", "-q", "--detach", wt, "HEAD"], "/repo")
    if rc != 0:
        print("worktree failed", out)
        return 2
    rec = {"name": name, "confirmed": False}
    try:
        rc, out = sh(["git", "apply", "--check", patch], wt)
        apply_cmd = ["git", "apply", patch]
        if rc != 0:
            # the tree moved on since the change was written (repairs landed nearby): three-way apply
            rc3, out3 = sh(["git", "apply", "-3", "--check", patch], wt)
            if rc3 != 0:
                rec["error"] = "patch does not apply to the current tree: " + out[-500:]
                print(json.dumps(rec))
                return 1
            apply_cmd = ["git", "apply", "-3", patch]
            rec["applied_three_way"] = True
        sh(apply_cmd, wt)
        rc, out = sh(["go", "build", "./..."], wt)
        rec["builds"] = rc == 0
        rc, out = sh(["go", "test", "-vet=off", "-count=1"] + PKGS, wt)
        rec["existing_tests_pass_with_patch"] = rc == 0
        if rc != 0:
            rec["existing_tests_output"] = "\n".join(l for l in out.splitlines() if l.startswith(("FAIL", "--- FAIL", "panic")))[:1500]
        dst = os.path.join(wt, demopkg, "zz_seeded_demo_test.go")
        shutil.copy(demo, dst)
        run = ["go", "test", "-vet=off", "-count=1", "-run", "ZZMut|Mut|Seeded|Demo", "./" + demopkg + "/"]
        rc, out = sh(run, wt)
        rec["demo_fails_with_patch"] = rc != 0
        rec["demo_output_with_patch"] = "\n".join(out.splitlines()[-12:])[:1500]
        sh(["git", "checkout", "-q", "--", "."], wt)
        sh(["git", "reset", "-q", "--hard"], wt)
        rc, out = sh(run, wt)
        rec["demo_passes_without_patch"] = rc == 0
        if rc != 0:
            rec["demo_output_without_patch"] = "\n".join(out.splitlines()[-12:])[:1500]
        rec["confirmed"] = bool(rec["builds"] and rec["existing_tests_pass_with_patch"] and rec["demo_fails_with_patch"] and rec["demo_passes_without_patch"])
    finally:
        subprocess.run(["git", "-C", "/repo", "worktree", "remove", "--force", wt], capture_output=True)
        shutil.rmtree(wt, ignore_errors=True)
    caught = {}
    if rec["confirmed"] and checks:
        # run the checks against a scratch worktree carrying the change (VERIF_REPO), so that other work
        # going on against /repo is not disturbed; equivalent to `git -C /repo apply` + checks + checkout
        wt2 = "/tmp/mutv/" + name + "-chk"
        shutil.rmtree(wt2, ignore_errors=True)
        subprocess.run(["git", "-C", "/repo", "worktree", "prune"], capture_output=True)
        sh(["git", "-C", "/repo", "worktree", "add", "-q", "--detach", wt2, "HEAD"], "/repo")
        sh(apply_cmd, wt2)
        try:
            for cid in checks:
                t0 = time.time()
                p = subprocess.run(["./check", cid, os.environ.get("TIER", "quick")], cwd=VERIF, capture_output=True, text=True,
                                   env=dict(os.environ, VERIF_SEED=os.environ.get("VERIF_SEED", "1"), VERIF_REPO=wt2))
                first = next((l for l in p.stdout.splitlines() if l.startswith(("VIOLATION", "OK", "KNOWN"))), "")
                detail = ""
                lines = p.stdout.splitlines()
                for i, l in enumerate(lines):
                    if l.startswith("VIOLATION"):
                        detail = "\n".join(lines[i + 1:i + 4])[:600]
                        break
                if p.returncode == 2:
                    detail = (p.stderr or "")[-600:]
                caught[cid] = {"exit": p.returncode, "first_line": first[:200], "detail": detail, "wall_s": round(time.time() - t0)}
        finally:
            subprocess.run(["git", "-C", "/repo", "worktree", "remove", "--force", wt2], capture_output=True)
            shutil.rmtree(wt2, ignore_errors=True)
    rec["checks"] = caught
    rec["caught_by"] = [c for c, v in caught.items() if v["exit"] == 1]
    if rec["confirmed"]:
        d = os.path.join(VERIF, "seeded", name)
        os.makedirs(d, exist_ok=True)
        shutil.copy(patch, os.path.join(d, "patch.diff"))
        shutil.copy(demo, os.path.join(d, "demo_test.go"))
        m = json.load(open(meta))
        m.update({"confirmed_by_main_session": {k: rec[k] for k in ("builds", "existing_tests_pass_with_patch", "demo_fails_with_patch", "demo_passes_without_patch")},
                  "demo_package_dir": demopkg,
                  "what_we_ran": ["git apply patch in a scratch worktree; go build ./...; go test " + " ".join(PKGS) + "; demo with and without the patch",
                                  "worktree of /repo HEAD + patch; VERIF_REPO=<worktree> ./check <id> quick for " + ", ".join(checks) + "; worktree removed"],
                  "checks_run": caught, "caught_by": rec["caught_by"]})
        json.dump(m, open(os.path.join(d, "meta.json"), "w"), indent=1)
    print(json.dumps({k: rec.get(k) for k in ("name", "confirmed", "builds", "existing_tests_pass_with_patch", "demo_fails_with_patch", "demo_passes_without_patch", "caught_by", "error")}))
    for c, v in caught.items():
        print("  ", c, v["exit"], v["first_line"][:120])
    return 0


if __name__ == "__main__":
    sys.exit(main())
