#!/usr/bin/env python3
"""Regression of the seeded-change matrix: every change stored under /verif/seeded/<name>/ is applied to a scratch
worktree of /repo HEAD and the checks that are recorded to catch it (or the ones given) are run again (quick tier,
VERIF_REPO=<worktree>). meta.json is updated with the outcome (`recheck`).

usage: seeded_recheck.py [--only <prefix>,<prefix>...] [--shard i/n] [--checks C01,C05]
A change whose patch no longer applies (the tree was repaired at that site since) is recorded as `obsolete`."""
import json, os, shutil, subprocess, sys, time, glob

VERIF = os.path.dirname(os.path.dirname(os.path.abspath(__file__)))
ENV = dict(os.environ, GOFLAGS="-mod=mod", GOPROXY="off")
ENV.pop("GOSUMDB", None)


def sh(cmd, cwd):
    p = subprocess.run(cmd, cwd=cwd, env=ENV, capture_output=True, text=True)
    return p.returncode, p.stdout + p.stderr


def main():
    only, shard, forced = None, (0, 1), None
    a = sys.argv[1:]
    while a:
        if a[0] == "--only":
            only = a[1].split(",")
        elif a[0] == "--shard":
            i, n = a[1].split("/")
            shard = (int(i), int(n))
        elif a[0] == "--checks":
            forced = a[1].split(",")
        a = a[2:]
    dirs = sorted(glob.glob(os.path.join(VERIF, "seeded", "*")))
    dirs = [d for d in dirs if os.path.exists(os.path.join(d, "patch.diff"))]
    if only:
        dirs = [d for d in dirs if any(os.path.basename(d).startswith(p) for p in only)]
    dirs = [d for k, d in enumerate(dirs) if k % shard[1] == shard[0]]
    for d in dirs:
        name = os.path.basename(d)
        meta = json.load(open(os.path.join(d, "meta.json")))
        checks = forced or meta.get("caught_by") or [name.split("-")[0]]
        wt = "/tmp/mutv/re-" + name
        shutil.rmtree(wt, ignore_errors=True)
        os.makedirs("/tmp/mutv", exist_ok=True)
        subprocess.run(["git", "-C", "/repo", "worktree", "prune"], capture_output=True)
        sh(["git", "-C", "/repo", "worktree", "add", "-q", "--detach", wt, "HEAD"], "/repo")
        rec = {"at_repo_commit": sh(["git", "-C", "/repo", "rev-parse", "--short", "HEAD"], "/repo")[1].strip(),
               "at_verif_commit": sh(["git", "rev-parse", "--short", "HEAD"], VERIF)[1].strip(), "checks": {}}
        try:
            patch = os.path.join(d, "patch.diff")
            rc, _ = sh(["git", "apply", "--check", patch], wt)
            cmd = ["git", "apply", patch]
            if rc != 0:
                rc, _ = sh(["git", "apply", "-3", "--check", patch], wt)
                cmd = ["git", "apply", "-3", patch]
            if rc != 0:
                rec["obsolete"] = "patch no longer applies (the code at that site was repaired since)"
            else:
                sh(cmd, wt)
                rc, out = sh(["go", "build", "./..."], wt)
                if rc != 0:
                    rec["obsolete"] = "patched tree no longer builds: " + out[-300:]
                else:
                    for cid in checks:
                        t0 = time.time()
                        p = subprocess.run(["./check", cid, "quick"], cwd=VERIF, capture_output=True, text=True,
                                           env=dict(os.environ, VERIF_SEED=os.environ.get("VERIF_SEED", "1"), VERIF_REPO=wt))
                        first = next((l for l in p.stdout.splitlines() if l.startswith(("VIOLATION", "OK", "KNOWN"))), "")
                        rec["checks"][cid] = {"exit": p.returncode, "first_line": first[:160], "wall_s": round(time.time() - t0)}
            if not rec.get("obsolete") and not any(v["exit"] == 1 for v in rec["checks"].values()):
                # not caught: does the change still break anything? (a later repair at another site can have neutralised
                # it: the demonstration then passes with the patch applied)
                demo = os.path.join(d, "demo_test.go")
                pkg = meta.get("demo_package_dir") or "pkg/engine"
                if os.path.exists(demo) and os.path.isdir(os.path.join(wt, pkg)):
                    shutil.copy(demo, os.path.join(wt, pkg, "zz_seeded_demo_test.go"))
                    tags = ["-tags", "verif"] if "go:build verif" in open(demo).read() else []
                    rc, out = sh(["go", "test", "-vet=off", "-count=1"] + tags + ["-run", "ZZMut|Mut|Seeded|Demo", "./" + pkg + "/"], wt)
                    rec["demo_fails_with_patch_now"] = rc != 0
                    if rc == 0:
                        rec["obsolete"] = "the demonstration passes with the patch applied to the current tree (neutralised by a later repair)"
        finally:
            subprocess.run(["git", "-C", "/repo", "worktree", "remove", "--force", wt], capture_output=True)
            shutil.rmtree(wt, ignore_errors=True)
        rec["caught_by"] = [c for c, v in rec["checks"].items() if v["exit"] == 1]
        meta["recheck"] = rec
        if rec["caught_by"]:
            meta["caught_by"] = sorted(set(rec["caught_by"]) | set(c for c in (meta.get("caught_by") or []) if c not in rec["checks"]))
        json.dump(meta, open(os.path.join(d, "meta.json"), "w"), indent=1)
        print(name, "obsolete" if rec.get("obsolete") else ("caught by " + ",".join(rec["caught_by"]) if rec["caught_by"] else "NOT CAUGHT by " + ",".join(checks)),
              {c: v["exit"] for c, v in rec["checks"].items()}, flush=True)


if __name__ == "__main__":
    main()
