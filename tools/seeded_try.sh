#!/bin/bash
# seeded_try.sh <diff> <check-id> [<check-id>...]  : apply a seeded change to /repo, run the quick checks, undo it.
# Prints one line per check: <id> exit=<rc> <first VIOLATION / OK line>
diff="$1"; shift
cd /repo || exit 2
if ! git diff --quiet; then echo "repo not clean"; exit 2; fi
git apply --check "$diff" || { echo "diff does not apply"; exit 2; }
git apply "$diff"
trap 'git -C /repo checkout -- . ; git -C /repo clean -fdq pkg internal cmd 2>/dev/null' EXIT
cd /verif
for id in "$@"; do
  out=$(VERIF_SEED=${VERIF_SEED:-1} ./check "$id" ${TIER:-quick} 2>&1); rc=$?
  echo "$id exit=$rc $(echo "$out" | grep -m1 -E '^(VIOLATION|OK|INFRA)' | cut -c1-200)"
  echo "$out" | grep -A3 -m1 '^VIOLATION' | tail -3 | cut -c1-300
done
