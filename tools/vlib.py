"""Shared plumbing for the /verif checks: building the harness from /repo's working tree,
running TLC, reading its corpus channel, sharding behaviours over replay subprocesses,
known findings, verdict lines and evidence files."""
import json, os, re, shutil, subprocess, sys, tempfile, time, hashlib, random

VERIF = os.path.dirname(os.path.dirname(os.path.abspath(__file__)))
REPO = os.environ.get("VERIF_REPO", "/repo")
SPEC = os.path.join(VERIF, "spec")
HARNESS = os.path.join(VERIF, "harness")
BIN = os.path.join(VERIF, "bin")
OUT = os.path.join(VERIF, "out")
# evidence describes runs against /repo itself; runs against another tree (VERIF_REPO, seeded changes) go to out/
EVIDENCE = os.path.join(VERIF, "evidence") if not os.environ.get("VERIF_REPO") else os.path.join(VERIF, "out", "evidence-alt")
NCPU = os.cpu_count() or 4

EXIT_OK, EXIT_VIOLATION, EXIT_INFRA = 0, 1, 2


class Infra(Exception):
    """Infrastructure failure: never a violation (exit 2)."""


def seed():
    try:
        return int(os.environ.get("VERIF_SEED", "1"))
    except ValueError:
        return 1


def goenv():
    env = dict(os.environ)
    env["GOFLAGS"] = "-mod=mod"
    env["GOPROXY"] = "off"
    env.pop("GOSUMDB", None)  # GOSUMDB=off breaks verification of the cached go1.26.0 toolchain
    env.setdefault("GOTOOLCHAIN", "auto")
    if env.get("GOTOOLCHAIN") == "local":
        env["GOTOOLCHAIN"] = "auto"
    return env


def scratch(prefix="verif-"):
    base = os.environ.get("VERIF_SCRATCH") or os.environ.get("TMPDIR") or "/tmp"
    os.makedirs(base, exist_ok=True)
    return tempfile.mkdtemp(prefix=prefix, dir=base)


_built = {}


def build_harness(race=False, cmd="vreplay"):
    """go build -tags verif of harness/cmd/<cmd> against the CURRENT working tree of the repository
    (/repo, or $VERIF_REPO when a seeded change is tried on a scratch worktree: the harness go.mod is
    then used through -modfile with its replace directive pointed at that tree)."""
    key = cmd + ("-race" if race else "")
    if key in _built:
        return _built[key]
    os.makedirs(BIN, exist_ok=True)
    alt = os.path.realpath(REPO) != "/repo"
    out = os.path.join(BIN, key + ("-alt%d" % os.getpid() if alt else ""))
    argv = ["go", "build", "-tags", "verif"] + (["-race"] if race else [])
    tmpd = None
    if alt:
        tmpd = scratch("modfile-")
        mod = open(os.path.join(HARNESS, "go.mod")).read().replace("=> /repo", "=> " + os.path.realpath(REPO))
        with open(os.path.join(tmpd, "go.mod"), "w") as f:
            f.write(mod)
        shutil.copy(os.path.join(REPO, "go.sum"), os.path.join(tmpd, "go.sum"))
        argv += ["-modfile", os.path.join(tmpd, "go.mod")]
    else:
        shutil.copy(os.path.join(REPO, "go.sum"), os.path.join(HARNESS, "go.sum"))
    argv += ["-o", out, "./cmd/" + cmd]
    try:
        p = subprocess.run(argv, cwd=HARNESS, env=goenv(), capture_output=True, text=True)
    finally:
        if tmpd:
            shutil.rmtree(tmpd, ignore_errors=True)
    if p.returncode != 0:
        raise Infra("harness build failed (does the repository still compile with -tags verif?):\n" + p.stdout + p.stderr)
    _built[key] = out
    if alt:
        import atexit
        atexit.register(lambda path=out: os.path.exists(path) and os.remove(path))   # per-process binary of a seeded-change run
    return out


def go_test_overlay(pkg_dir_rel, files, run=None, timeout=600, race=False, extra_env=None, tags="verif"):
    """Run `go test` in a /repo package with extra _test.go files supplied through -overlay
    (nothing is written into /repo). files: {basename: content}. Returns (rc, output)."""
    d = scratch("overlay-")
    try:
        replace = {}
        for name, content in files.items():
            src = os.path.join(d, name)
            with open(src, "w") as f:
                f.write(content)
            replace[os.path.join(REPO, pkg_dir_rel, name)] = src
        ov = os.path.join(d, "overlay.json")
        with open(ov, "w") as f:
            json.dump({"Replace": replace}, f)
        cmd = ["go", "test", "-count=1", "-vet=off", "-tags", tags, "-overlay", ov, "-timeout", "%ds" % timeout]
        if race:
            cmd.append("-race")
        if run:
            cmd += ["-run", run]
        cmd.append("./" + pkg_dir_rel)
        env = goenv()
        if extra_env:
            env.update(extra_env)
        p = subprocess.run(cmd, cwd=REPO, env=env, capture_output=True, text=True, timeout=timeout + 60)
        return p.returncode, p.stdout + p.stderr
    finally:
        shutil.rmtree(d, ignore_errors=True)


# ------------------------------------------------------------------ TLC

class TLCResult:
    def __init__(self):
        self.generated = 0
        self.distinct = 0
        self.depth = 0
        self.ok = False
        self.error = None          # text of the first error block, if any
        self.violated = None       # name of violated invariant / property
        self.trace = []            # counterexample states (raw text blocks)
        self.corpus = []           # decoded CORPUS records
        self.printed = {}          # other tagged PrintT channels: tag -> [decoded]
        self.coverage = {}         # action -> count (with -coverage)
        self.wall = 0.0
        self.cmd = ""
        self.raw_tail = ""


_tagre = re.compile(r'^<<"([A-Z_]+)", "(.*)">>$')


def _unescape_tla(s):
    # TLA+ string escapes as printed by TLC are JSON compatible
    return json.loads('"' + s + '"')


def make_cfg(spec="Spec", constants=None, invariants=(), properties=(), constraint=None, view=None,
             action_constraint=None, symmetry=None, deadlock=False, postcondition=None, init_next=None):
    """Compose a TLC configuration. constants: {name: value}; a value starting with '<-' is a
    substitution by a definition of the MC module, anything else is written literally."""
    lines = []
    if init_next:
        lines += ["INIT " + init_next[0], "NEXT " + init_next[1]]
    else:
        lines.append("SPECIFICATION " + spec)
    if constants:
        lines.append("CONSTANTS")
        for k, v in constants.items():
            v = str(v)
            lines.append("  %s %s" % (k, v if v.startswith("<-") else "= " + v))
    if constraint:
        lines.append("CONSTRAINT " + constraint)
    if action_constraint:
        lines.append("ACTION_CONSTRAINT " + action_constraint)
    if view:
        lines.append("VIEW " + view)
    if symmetry:
        lines.append("SYMMETRY " + symmetry)
    if invariants:
        lines.append("INVARIANTS " + " ".join(invariants))
    if properties:
        lines.append("PROPERTIES " + " ".join(properties))
    if postcondition:
        lines.append("POSTCONDITION " + postcondition)
    lines.append("CHECK_DEADLOCK " + ("TRUE" if deadlock else "FALSE"))
    return "\n".join(lines) + "\n"


def run_tlc(module, cfg, workers=None, timeout=600, simulate=None, depth=None, seed_=None,
            coverage=False, extra=None, deadlock=False, env_extra=None, keep_lines=False, dfs=False,
            cfg_text=None, extra_files=None):
    """Run TLC on spec/<module>.tla in a scratch copy of /verif/spec, with the configuration file
    spec/<cfg> or, if cfg_text is given, with that text (written as <cfg> in the scratch copy)."""
    d = scratch("tlc-")
    res = TLCResult()
    try:
        for f in os.listdir(SPEC):
            if f.endswith(".tla") or f.endswith(".cfg"):
                shutil.copy(os.path.join(SPEC, f), d)
        if cfg_text is not None:
            with open(os.path.join(d, cfg), "w") as f:
                f.write(cfg_text)
        for name, content in (extra_files or {}).items():
            with open(os.path.join(d, name), "w") as f:
                f.write(content)
        cmd = ["tlc", "-metadir", os.path.join(d, "meta"), "-workers", str(workers or NCPU), "-config", cfg]
        if simulate:
            cmd += ["-simulate", "num=%d" % simulate]
            if depth:
                cmd += ["-depth", str(depth)]
            if seed_ is not None:
                cmd += ["-seed", str(seed_)]
        elif depth:
            cmd += ["-depth", str(depth)]
        if coverage:
            cmd += ["-coverage", "1"]
        if deadlock:
            cmd += ["-deadlock"]
        if extra:
            cmd += extra
        cmd.append(module + ".tla")
        env = dict(os.environ)
        # cap the JVM heap (TLC's wrapper would take 25% of RAM per run; several checks may run side by side)
        jopts = env.get("JAVA_TOOL_OPTIONS", "")
        if "-Xmx" not in jopts:
            jopts = (jopts + " -Xmx%s" % os.environ.get("VERIF_TLC_HEAP", "6g")).strip()
        env["JAVA_TOOL_OPTIONS"] = jopts
        if dfs:
            env["JAVA_TOOL_OPTIONS"] = (env.get("JAVA_TOOL_OPTIONS", "") + " -Dtlc2.tool.queue.IStateQueue=StateDeque").strip()
        if env_extra:
            env.update(env_extra)
        res.cmd = " ".join(cmd)
        t0 = time.time()
        try:
            p = subprocess.run(["timeout", str(timeout)] + cmd, cwd=d, env=env, capture_output=True, text=True, errors="replace")
        finally:
            res.wall = time.time() - t0
        out = p.stdout
        lines = out.splitlines()
        res.raw_tail = "\n".join(lines[-60:]) + ("\n" + p.stderr[-2000:] if p.stderr.strip() else "")
        if p.returncode == 124:
            raise Infra("TLC timed out after %ds: %s" % (timeout, res.cmd))
        _parse_tlc(lines, res)
        if keep_lines:
            res.lines = lines
        if not res.ok and res.error is None and not simulate:
            raise Infra("TLC did not finish cleanly (rc=%d):\n%s" % (p.returncode, res.raw_tail))
        return res
    finally:
        shutil.rmtree(d, ignore_errors=True)


def run_apalache(module, cinit, init, inv, length, timeout=300):
    """Run `apalache-mc check` on spec/<module>.tla in a scratch copy of /verif/spec. Returns
    {"outcome": "NoError" | "Error" | "unavailable", "wall_s": ..} -- "Error" = the invariant does not hold
    (a counterexample was found); "unavailable" = the tool could not be run / did not finish (never a verdict)."""
    d = scratch("apa-")
    t0 = time.time()
    try:
        for f in os.listdir(SPEC):
            if f.endswith(".tla"):
                shutil.copy(os.path.join(SPEC, f), d)
        cmd = ["timeout", str(timeout), "apalache-mc", "check", "--out-dir=" + os.path.join(d, "out"),
               "--cinit=" + cinit, "--init=" + init, "--inv=" + inv, "--length=%d" % length, module + ".tla"]
        env = dict(os.environ)
        env.pop("JAVA_TOOL_OPTIONS", None)
        env["HOME"] = d  # apalache writes ~/.tlaplus / ~/.apalache.cfg lookups: keep them inside the scratch copy
        try:
            p = subprocess.run(cmd, cwd=d, env=env, capture_output=True, text=True, errors="replace")
        except OSError as e:
            return {"outcome": "unavailable", "detail": str(e)[:200], "wall_s": round(time.time() - t0, 1)}
        out = p.stdout + p.stderr
        if "The outcome is: NoError" in out and p.returncode == 0:
            oc = "NoError"
        elif p.returncode == 12 and "The outcome is: Error" in out:
            oc = "Error"
        else:
            return {"outcome": "unavailable", "detail": "rc=%d %s" % (p.returncode, out[-300:]), "wall_s": round(time.time() - t0, 1)}
        return {"outcome": oc, "wall_s": round(time.time() - t0, 1), "cmd": " ".join(cmd[2:4] + cmd[5:])}
    finally:
        shutil.rmtree(d, ignore_errors=True)


def _parse_tlc(lines, res):
    in_err = False
    err = []
    cur_state = None
    for ln in lines:
        m = _tagre.match(ln)
        if m:
            try:
                rec = json.loads(_unescape_tla(m.group(2)))
            except Exception:
                continue
            if m.group(1) == "CORPUS":
                res.corpus.append(rec)
            else:
                res.printed.setdefault(m.group(1), []).append(rec)
            continue
        m = re.match(r"^(\d[\d,]*) states generated, (\d[\d,]*) distinct states found", ln)
        if m:
            res.generated = int(m.group(1).replace(",", ""))
            res.distinct = int(m.group(2).replace(",", ""))
        m = re.match(r"^The depth of the complete state graph search is (\d+)", ln)
        if m:
            res.depth = int(m.group(1))
        if ln.startswith("Model checking completed. No error has been found.") or ln.startswith("Finished in") and res.error is None and res.generated:
            res.ok = res.error is None
        m = re.match(r"^Error: Invariant (\S+) is violated", ln)
        if m:
            res.violated = m.group(1)
        m = re.match(r"^Error: Action property (\S+) is violated", ln)
        if m:
            res.violated = m.group(1)
        if ln.startswith("Error:"):
            in_err = True
            if res.error is None:
                res.error = ln
        elif in_err and res.error is not None and len(res.error) < 4000 and not ln.startswith("State "):
            res.error += "\n" + ln
        if re.match(r"^State \d+:", ln):
            in_err = False
            cur_state = [ln]
            res.trace.append(cur_state)
        elif cur_state is not None:
            if ln.strip() == "" or ln.startswith("Error:") or re.match(r"^\d+ states generated", ln):
                cur_state = None
            else:
                cur_state.append(ln)
        m = re.match(r"^<(\w+) line \d+, col \d+ to line \d+, col \d+ of module (\w+)>: (\d+):(\d+)", ln)
        if m:
            res.coverage[m.group(1)] = res.coverage.get(m.group(1), 0) + int(m.group(4))
    if res.error is not None:
        res.ok = False
    res.trace = ["\n".join(s) for s in res.trace]


def sany(module):
    d = scratch("sany-")
    try:
        for f in os.listdir(SPEC):
            if f.endswith(".tla"):
                shutil.copy(os.path.join(SPEC, f), d)
        p = subprocess.run(["timeout", "120", "tla-sany", module + ".tla"], cwd=d, capture_output=True, text=True)
        bad = p.returncode != 0 or re.search(r"(?i)\*\*\* Errors|Fatal errors|Could not find module", p.stdout)
        return (not bad), p.stdout[-3000:]
    finally:
        shutil.rmtree(d, ignore_errors=True)


# ------------------------------------------------------------------ corpus -> behaviours

def behaviours_from_corpus(corpus, max_behaviours=None, rng=None, need=None, stratum=None):
    """corpus records {ops, obs, ...} are prefix closed (BFS: a state's recorded history extends
    its parent's; simulation: every step of a walk is printed). Leaves of the trie are the
    behaviours to replay; every prefix that was itself recorded contributes its expected
    projection. `need(ops)` optionally filters leaves."""
    table = {}
    for rec in corpus:
        key = json.dumps(rec["ops"], sort_keys=True)
        table[key] = rec
    prefixes = set()
    for rec in table.values():
        ops = rec["ops"]
        for i in range(len(ops)):
            prefixes.add(json.dumps(ops[:i], sort_keys=True))
    leaves = [rec for key, rec in table.items() if key not in prefixes and rec["ops"]]
    if need:
        leaves = [r for r in leaves if need(r["ops"])]
    leaves.sort(key=lambda r: json.dumps(r["ops"], sort_keys=True))
    if max_behaviours is not None and len(leaves) > max_behaviours:
        rng = rng or random.Random(seed())
        if stratum:
            # stratified sample: the same share for every class stratum(ops) (e.g. the kind of the rejected call)
            groups = {}
            for r in leaves:
                groups.setdefault(stratum(r["ops"]), []).append(r)
            for g in groups.values():
                rng.shuffle(g)
            picked, order = [], sorted(groups, key=repr)
            rng.shuffle(order)       # more classes than picks: which classes are served must not depend on their names
            while len(picked) < max_behaviours and any(groups.values()):
                for k in order:
                    if groups[k] and len(picked) < max_behaviours:
                        picked.append(groups[k].pop())
            leaves = picked
        else:
            leaves = rng.sample(leaves, max_behaviours)
    out = []
    for n, rec in enumerate(leaves):
        ops = rec["ops"]
        steps = []
        for i, op in enumerate(ops):
            key = json.dumps(ops[: i + 1], sort_keys=True)
            exp = table.get(key)
            steps.append({"op": op, "exp": exp["obs"] if exp else None})
        out.append({"id": "b%d" % n, "steps": steps, "dev": rec.get("dev", [])})
    return out, len(table)


def run_sharded(binary, subcmd, profile, behaviours, extra_args=None, shards=None, timeout=1800, payload_key="behaviours"):
    """Split behaviours over short-lived replay subprocesses (each engine leaves goroutines
    behind, so one process must not host too many engine lifetimes)."""
    shards = shards or NCPU
    if not behaviours:
        return {"behaviours": 0, "steps": 0, "checks": 0, "divergences": [], "errors": []}
    d = scratch("replay-")
    try:
        per = max(1, (len(behaviours) + shards - 1) // shards)
        per = min(per, 400)
        chunks = [behaviours[i:i + per] for i in range(0, len(behaviours), per)]
        procs = []
        merged = {}
        idx = 0
        running = []

        def launch(i, chunk):
            fin = os.path.join(d, "in%d.json" % i)
            fout = os.path.join(d, "out%d.json" % i)
            with open(fin, "w") as f:
                json.dump({"profile": profile, payload_key: chunk}, f)
            env = dict(os.environ)
            env["TMPDIR"] = d
            p = subprocess.Popen([binary, subcmd, "-in", fin, "-out", fout] + (extra_args or []), env=env,
                                 stdout=subprocess.PIPE, stderr=subprocess.PIPE, text=True)
            return (p, fout, time.time())

        pending = list(enumerate(chunks))
        results = []
        while pending or running:
            while pending and len(running) < shards:
                i, chunk = pending.pop(0)
                running.append(launch(i, chunk))
            still = []
            for (p, fout, t0) in running:
                rc = p.poll()
                if rc is None:
                    if time.time() - t0 > timeout:
                        p.kill()
                        raise Infra("replay shard timed out")
                    still.append((p, fout, t0))
                    continue
                so, se = p.communicate()
                if rc != 0 or not os.path.exists(fout):
                    raise Infra("replay shard failed rc=%s\n%s\n%s\n...\n%s" % (rc, so[-2000:], se[:3000], se[-1500:]))
                with open(fout) as f:
                    results.append(json.load(f))
            running = still
            if running:
                time.sleep(0.02)
        for r in results:
            for k, v in r.items():
                if isinstance(v, list):
                    merged.setdefault(k, []).extend(v or [])
                elif isinstance(v, (int, float)):
                    merged[k] = merged.get(k, 0) + v
                elif isinstance(v, dict):
                    # per-key counters (e.g. crash images per point)
                    dst = merged.setdefault(k, {})
                    for kk, vv in v.items():
                        if isinstance(vv, (int, float)):
                            dst[kk] = dst.get(kk, 0) + vv
                elif v is None:
                    merged.setdefault(k, [])
        return merged
    finally:
        shutil.rmtree(d, ignore_errors=True)


# ------------------------------------------------------------------ findings / verdict / evidence

def load_known():
    p = os.path.join(VERIF, "known_findings.json")
    if not os.path.exists(p):
        return []
    with open(p) as f:
        return json.load(f).get("findings", [])


def match_known(prop, div, behaviour=None):
    """A divergence matches a known finding when every key of the finding's `match` object
    agrees: kind (divergence kind), op (name of the diverging operation), history_has (op names
    that must occur earlier in the behaviour), diff_re (regex over the diff lines)."""
    for kf in load_known():
        if kf.get("status", "open") != "open" or kf["property"] != prop:
            continue
        m = kf.get("match", {})
        kinds = m.get("kind")
        if kinds is not None and div.get("kind") not in (kinds if isinstance(kinds, list) else [kinds]):
            continue
        op = div.get("op") or {}
        opname = op.get("op") if isinstance(op, dict) else op
        if "op" in m and m["op"] != opname:
            continue
        if "op_re" in m and not re.search(m["op_re"], str(opname)):
            continue
        names = []
        if behaviour:
            names = [s["op"].get("op") for s in behaviour["steps"][: div.get("step", 0) + 1]]
        if "history_has" in m and not all(h in names for h in m["history_has"]):
            continue
        if "history_has_any" in m and not any(h in names for h in m["history_has_any"]):
            continue
        if "history_ends_with" in m and (not names or names[-1] != m["history_ends_with"]):
            continue
        if "diff_re" in m:
            text = "\n".join(div.get("diff") or []) + "\n" + (div.get("detail") or "")
            if not re.search(m["diff_re"], text):
                continue
        return kf
    return None


class Check:
    """Collects what a check did and produces verdict + evidence."""

    def __init__(self, prop, tier, level="model_checking"):
        self.prop, self.tier, self.level = prop, tier, level
        self.t0 = time.time()
        self.cov = {"states": 0, "transitions": 0, "traces_validated_against_impl": 0, "samples": [],
                    "evaluations": 0, "distinct_nontrivial": 0, "rule": "", "tlc_runs": [], "exhaustive": False}
        self.assumptions = []
        self.violations = []      # (description, replay object)
        self.known = []           # (finding id, description)
        self.infra = []

    def add_tlc(self, name, r, exhaustive=True):
        self.cov["states"] += r.distinct
        self.cov["transitions"] += r.generated
        self.cov["tlc_runs"].append({"config": name, "distinct_states": r.distinct, "states_generated": r.generated,
                                     "depth": r.depth, "wall_s": round(r.wall, 1), "ok": r.ok, "cmd": r.cmd})
        if not r.ok:
            self.infra.append("TLC reported an error on %s: %s" % (name, (r.error or r.raw_tail)[:1500]))

    def violation(self, what, replay_obj):
        os.makedirs(os.path.join(OUT, "replays"), exist_ok=True)
        h = hashlib.sha1(json.dumps(replay_obj, sort_keys=True, default=str).encode()).hexdigest()[:10]
        path = os.path.join(OUT, "replays", "%s-%s.json" % (self.prop, h))
        with open(path, "w") as f:
            json.dump(replay_obj, f, indent=1, default=str)
        self.violations.append((what, path))

    def finish(self):
        wall = time.time() - self.t0
        os.makedirs(EVIDENCE, exist_ok=True)
        cov = dict(self.cov)
        cov["samples"] = cov["samples"][:6] or ["(no sample recorded)"]
        ev = {"property_id": self.prop, "tier": self.tier, "seed": seed(), "level": self.level, "coverage": cov,
              "assumptions": self.assumptions, "wall_s": round(wall, 2), "violations": len(self.violations),
              "known_findings_hit": [k for k, _ in self.known]}
        if self.infra:
            ev["infrastructure_errors"] = self.infra[:5]
        with open(os.path.join(EVIDENCE, self.prop + ".json"), "w") as f:
            json.dump(ev, f, indent=1, default=str)
        seen = set()
        for kid, what in self.known:
            if kid in seen:
                continue
            seen.add(kid)
            print("KNOWN-FINDING: property=%s %s" % (self.prop, what))
        for what, path in self.violations[:20]:
            print("VIOLATION property=%s replay=%s" % (self.prop, path))
            print("  " + what.replace("\n", "\n  ")[:3000])
        if self.violations:
            return EXIT_VIOLATION
        if self.infra:
            for m in self.infra:
                print("INFRA: " + m, file=sys.stderr)
            return EXIT_INFRA
        print("OK property=%s tier=%s states=%d transitions=%d impl_traces=%d wall=%.1fs" % (
            self.prop, self.tier, cov["states"], cov["transitions"], cov["traces_validated_against_impl"], wall))
        return EXIT_OK


def main_wrapper(fn):
    try:
        sys.exit(fn())
    except Infra as e:
        print("INFRA: %s" % e, file=sys.stderr)
        sys.exit(EXIT_INFRA)
